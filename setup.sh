#!/bin/sh
# Builds the framework from files on disk only (offline).
set -e
cd /verif/harness
cp /repo/Cargo.lock Cargo.lock
CARGO_NET_OFFLINE=true cargo build --offline --quiet
cd /verif/spec
for m in Props Mon; do tla-sany $m.tla >/dev/null; done
echo setup-ok
