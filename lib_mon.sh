#!/bin/sh
# usage: lib_mon.sh <log.ndjson> <PROP|ALL> [workdir]
LOG=$(readlink -f "$1"); PROP=${2:-ALL}; WD=${3:-/verif/work/mon.$$}
mkdir -p "$WD"
cd /verif/spec
TRACE="$LOG" PROP="$PROP" JAVA_TOOL_OPTIONS="-Xss1g -Xmx6g -Dtlc2.tool.queue.IStateQueue=StateDeque" \
  timeout ${MON_TIMEOUT:-900} tlc -workers 1 -metadir "$WD" -cleanup -noGenerateSpecTE -config Mon.cfg Mon.tla
rc=$?
rm -rf "$WD"
exit $rc
