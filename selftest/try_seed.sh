#!/bin/bash
# try_seed.sh <dir with patch.diff> <PROP> [tier] : applies the patch to /repo, runs the property's check, restores /repo. FOREGROUND ONLY.
D=$(readlink -f $1); P=$2; T=${3:-quick}
cd /verif
[ -z "$(git -C /repo status --porcelain)" ] || { echo "repo not clean"; exit 2; }
git -C /repo apply $D/patch.diff || { echo "patch does not apply to /repo"; exit 2; }
cp evidence/$P.json /tmp/try_seed.ev 2>/dev/null   # evidence must describe the unchanged tree: keep it
./check $P $T > /tmp/try_seed.out 2>&1; rc=$?
git -C /repo checkout -- .
cp /tmp/try_seed.ev evidence/$P.json 2>/dev/null
echo "TRY $P $T rc=$rc violations=$(grep -c '^VIOLATION' /tmp/try_seed.out) drift=$(grep -c '^SPEC-DRIFT' /tmp/try_seed.out)"
grep -A1 '^VIOLATION' /tmp/try_seed.out | grep what | head -3 | cut -c1-300
grep '^SPEC-DRIFT' /tmp/try_seed.out | head -1 | cut -c1-400
