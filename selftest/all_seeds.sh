#!/bin/bash
# all_seeds.sh : regression over every stored seeded change: applies each to /repo, runs the quick check of the
# property it breaks, restores /repo.  FOREGROUND ONLY (it patches /repo).  Prints one line per seed.
cd /verif
for d in seeded/S*-C*; do
  P=${d##*-}
  out=$(selftest/try_seed.sh $d $P quick 2>&1 | grep "^TRY")
  echo "$(basename $d) $out"
done
