#!/usr/bin/env python3
"""Re-creates the regressions the property list names (M02, M04, ...) as patches against /repo.
Calibration of the machinery only; nothing here is a registered check.  Usage: make_mutants.py"""
import os, subprocess, sys
REPO = "/repo"
OUT = os.path.join(os.path.dirname(os.path.abspath(__file__)), "mutants")
SM = "omaha-client/src/state_machine.rs"
M = {}
def mut(name, prop, path, old, new, count=1):
    M.setdefault(name, {"prop": prop, "edits": []})["edits"].append((path, old, new, count))

mut("M06_retry_after_validation_failure", "C06,C02", SM,
'''                    Self::yield_state(State::ErrorCheckingForUpdate, co).await;
                    break Err(UpdateCheckError::OmahaRequest(e.into()));
                }
                Err(OmahaRequestError::HttpTransport(e)) => {''',
'''                    if omaha_request_attempt >= MAX_OMAHA_REQUEST_ATTEMPTS {
                        Self::yield_state(State::ErrorCheckingForUpdate, co).await;
                        break Err(UpdateCheckError::OmahaRequest(e.into()));
                    }
                }
                Err(OmahaRequestError::HttpTransport(e)) => {''')
mut("M40_deferred_state_on_denial", "C04", SM,
'''                    .await;

                    return Self::make_not_updated_result(
                        response,
                        update_check::Action::DeniedByPolicy,''',
'''                    .await;

                    Self::yield_state(State::InstallationDeferredByPolicy, co).await;

                    return Self::make_not_updated_result(
                        response,
                        update_check::Action::DeniedByPolicy,''')
mut("M05_no_verification_for_non_2xx", "C02", SM,
'''        let signature: Option<DerSignature> = if let (Some(handler), Some(metadata)) =
            (self.cup_handler.as_ref(), &request_metadata)
        {''',
'''        let signature: Option<DerSignature> = if !response.status().is_success() {
            None
        } else if let (Some(handler), Some(metadata)) =
            (self.cup_handler.as_ref(), &request_metadata)
        {''')
mut("M09_xra_u32", "C07", SM, '''.and_then(|s| s.parse::<u64>().map_err(|e| anyhow!(e)))''', '''.and_then(|s| s.parse::<u32>().map(u64::from).map_err(|e| anyhow!(e)))''')
mut("M16_race_timers", "C12", SM,
'''            future::join(
                self.timer.wait_for(minimum_wait),
                self.timer.wait_until(check_timing.time),
            )
            .map(|_| ())''',
'''            future::select(
                self.timer.wait_for(minimum_wait),
                self.timer.wait_until(check_timing.time),
            )
            .map(|_| ())''')
mut("M11_lut_on_network_failure", "C08", SM,
'''                        OmahaRequestError::HttpTransport(_) | OmahaRequestError::HttpStatus(_) => {
                            UpdateCheckFailureReason::Network''',
'''                        OmahaRequestError::HttpTransport(_) | OmahaRequestError::HttpStatus(_) => {
                            self.context.schedule.last_update_time =
                                Some(self.time_source.now().into());
                            UpdateCheckFailureReason::Network''')
mut("M10d_plan_failure_not_contact", "C08", SM,
'''                    UpdateCheckError::ResponseParser(_) | UpdateCheckError::InstallPlan(_) => {
                        // We talked to Omaha, update |last_update_time|.
                        self.context.schedule.last_update_time =
                            Some(self.time_source.now().into());

                        UpdateCheckFailureReason::Omaha
                    }''',
'''                    UpdateCheckError::ResponseParser(_) => {
                        // We talked to Omaha, update |last_update_time|.
                        self.context.schedule.last_update_time =
                            Some(self.time_source.now().into());

                        UpdateCheckFailureReason::Omaha
                    }
                    UpdateCheckError::InstallPlan(_) => UpdateCheckFailureReason::Omaha,''')
mut("M13_ping_no_app_update", "C09", SM,
'''        let app_responses = Self::make_app_responses(response, update_check::Action::NoUpdate);
        self.app_set.lock().await.update_from_omaha(&app_responses);

        self.persist_data().await;''',
'''        let _app_responses = Self::make_app_responses(response, update_check::Action::NoUpdate);

        self.persist_data().await;''')
mut("M48_update_loop_first_app_only", "C09", "omaha-client/src/app_set.rs",
'''                    app.user_counting = app_response.user_counting.clone();
                    break;
                }
            }
        }''',
'''                    app.user_counting = app_response.user_counting.clone();
                    break;
                }
            }
            break;
        }''')
mut("M32_reports_default_params", "C05", SM,
'''        let config = self.config.clone();
        let mut request_builder = RequestBuilder::new(&config, request_params);
        for app in apps {
            // Skip apps with no update.''',
'''        let config = self.config.clone();
        let _ = request_params;
        let default_params = RequestParams::default();
        let mut request_builder = RequestBuilder::new(&config, &default_params);
        for app in apps {
            // Skip apps with no update.''')
mut("M15_any_request_ondemand_in_reboot_wait", "C11,C05,C12", SM,
'''                        let _ = responder.send(StartUpdateCheckResponse::AlreadyRunning);
                        if new_options.source == InstallSource::OnDemand {
                            info!("Waiting for reboot, but ensuring that InstallSource is OnDemand");''',
'''                        let _ = responder.send(StartUpdateCheckResponse::AlreadyRunning);
                        let _ = &new_options;
                        if true {
                            info!("Waiting for reboot, but ensuring that InstallSource is OnDemand");''')
mut("M42_request_id_reused_on_retry", "C06,C03", SM,
'''            request_builder = request_builder.request_id(GUID::new());
            let result = self''',
'''            if omaha_request_attempt == 1 {
                request_builder = request_builder.request_id(GUID::new());
            }
            let result = self''')
mut("M34_no_jitter", "C06", SM, '''    n - range / 2 + rand::random::<u64>() % range''', '''    n - range / 2 + (rand::random::<u64>() % range) * 0 + range / 2''')
mut("M08b_retry_caller_errors", "C06", SM,
'''                    if omaha_request_attempt >= MAX_OMAHA_REQUEST_ATTEMPTS
                        || e.is_user()
                        || self.context''',
'''                    if omaha_request_attempt >= MAX_OMAHA_REQUEST_ATTEMPTS
                        || self.context''')
mut("M47_skip_offered_apps", "C04,C10", SM,
'''            for (response_app, app_install_result) in
                apps_with_update.iter().zip(&app_install_results)
            {''',
'''            for (response_app, app_install_result) in
                apps_with_update.iter().zip(&app_install_results).take(1)
            {''')
mut("M25_target_version_any_app", "C18", SM,
'''                if let Some(next_version) = next_versions.get(system_app_id) {''',
'''                let _ = system_app_id;
                if let Some(next_version) = next_versions.values().next() {''')
mut("M41b_panic_second_write_fails", "C14", SM,
'''            error!("Unable to persist {}: {}", UPDATE_FIRST_SEEN_TIME, e);
            let _ = storage.remove(INSTALL_PLAN_ID).await;''',
'''            error!("Unable to persist {}: {}", UPDATE_FIRST_SEEN_TIME, e);
            storage.remove(INSTALL_PLAN_ID).await.unwrap();''')
mut("M02_response_hash_dropped", "C01", "omaha-client/src/cup_ecdsa.rs",
'''    hasher.update(request_hash);
    hasher.update(response_hash);''',
'''    hasher.update(request_hash);
    let _ = response_hash;''')
mut("M04_prefix_compare", "C01", "omaha-client/src/cup_ecdsa.rs",
'''        if *request_body_hash != *actual_hash {''',
'''        if !request_body_hash.starts_with(actual_hash) {''')
mut("M19_appid_header_last_app", "C15", "omaha-client/src/request_builder.rs",
'''        if let Some(main_app) = self.app_entries.first() {''', '''        if let Some(main_app) = self.app_entries.last() {''')
mut("M43b_package_size_u32", "C16", "omaha-client/src/protocol/response.rs",
'''    pub size: Option<u64>,''', '''    pub size: Option<u32>,''')
mut("M44_pre_epoch_rounding", "C19", "omaha-client/src/time/complex.rs", None, None)
mut("M45_version_zero_third", "C20", "omaha-client/src/version.rs", None, None)
mut("M21_server_ignores_historical_keys", "C17", "mock-omaha-server/src/lib.rs", None, None)
mut("M22_server_digest_without_cup2key", "C17", "mock-omaha-server/src/lib.rs", None, None)

def sh(*a, **k):
    return subprocess.run(a, cwd=REPO, stdout=subprocess.PIPE, stderr=subprocess.STDOUT, text=True, **k)

def main():
    assert sh("git", "status", "--porcelain").stdout.strip() == "", "repo not clean"
    os.makedirs(OUT, exist_ok=True)
    for name, m in M.items():
        ok = True
        for path, old, new, count in m["edits"]:
            if old is None:
                ok = False
                continue
            p = os.path.join(REPO, path)
            s = open(p).read()
            if s.count(old) != count:
                print("SKIP %s: anchor found %d times in %s" % (name, s.count(old), path))
                ok = False
                break
            open(p, "w").write(s.replace(old, new))
        if ok:
            d = sh("git", "diff").stdout
            open(os.path.join(OUT, name + ".diff"), "w").write("# breaks: %s\n" % m["prop"] + d)
            print("wrote", name)
        sh("git", "checkout", "--", ".")
main()
