#!/bin/bash
# Calibration: applies each mutant patch to /repo, runs the quick check of the property it breaks,
# expects exit 1 + VIOLATION, and restores /repo.  usage: run_mutants.sh [pattern] [tier]
cd /verif
PAT=${1:-.}
TIER=${2:-quick}
for f in selftest/mutants/*.diff; do
  n=$(basename $f .diff)
  echo "$n" | grep -q "$PAT" || continue
  props=$(head -1 $f | sed 's/# breaks: //; s/,/ /g')
  if ! git -C /repo apply <(tail -n +2 $f) 2>/dev/null; then echo "$n: PATCH-FAILED"; continue; fi
  for p in $props; do
    if ! grep -q "\"$p\"" lib/props.py; then echo "$n $p: NO-CHECK"; continue; fi
    cp evidence/$p.json /tmp/run_mut.ev 2>/dev/null   # evidence must describe the unchanged tree: keep it
    out=$(./check $p $TIER 2>&1); rc=$?
    cp /tmp/run_mut.ev evidence/$p.json 2>/dev/null
    nv=$(echo "$out" | grep -c '^VIOLATION')
    first=$(echo "$out" | grep -A1 '^VIOLATION' | sed -n 2p | cut -c1-160)
    echo "$n $p: rc=$rc violations=$nv $first"
  done
  git -C /repo checkout -- .
done
