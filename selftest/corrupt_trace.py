#!/usr/bin/env python3
"""Demonstrates that TraceOmaha.tla is bound to the recorded runs: a clean batch of recorded runs is accepted by the
design model; each of a set of single corruptions of the recording (a changed field, a dropped line, a changed answer,
two lines swapped) is rejected - either TLC cannot follow the run or the predicted log differs from the recording."""
import copy
import json
import os
import sys

ROOT = os.path.dirname(os.path.dirname(os.path.abspath(__file__)))
sys.path.insert(0, os.path.join(ROOT, "lib"))
import props  # noqa: E402
import scen  # noqa: E402
import tracecheck  # noqa: E402
import vlib  # noqa: E402


def corruptions(recs):
    """yields (name, corrupted list of records)"""
    def first(pred, start=0):
        for i in range(start, len(recs)):
            if pred(recs[i]):
                return i
        return None
    i = first(lambda e: e.get("k") == "ev" and e.get("e") == "pstate")
    if i is not None:
        r = copy.deepcopy(recs); r[i]["fails"] = r[i]["fails"] + 1
        yield "failure count in a ProtocolStateChange event +1", r
    i = first(lambda e: e.get("k") == "st.commit")
    if i is not None:
        yield "a commit dropped from the log", recs[:i] + recs[i + 1:]
    i = first(lambda e: e.get("k") == "http.uc" and e["ans"].get("cls") == "resp" and e["ans"].get("status") == 200)
    if i is not None:
        r = copy.deepcopy(recs); r[i]["ans"]["status"] = 503
        yield "recorded answer 200 changed to 503 (the run that follows is the 200 run)", r
    i = first(lambda e: e.get("k") == "ev" and e.get("e") == "state" and e.get("s") in ("NoUpdate", "Error", "Installing"))
    if i is not None:
        r = copy.deepcopy(recs); r[i]["s"] = "Deferred"
        yield "a state announcement renamed", r
    i = first(lambda e: e.get("k") == "st.set" and e.get("key") == "last_update_time")
    if i is not None:
        r = copy.deepcopy(recs); r[i]["v"]["s"] = r[i]["v"]["s"] + 1
        yield "stored last-contact time +1 s", r
    i = first(lambda e: e.get("k") == "ev" and e.get("e") == "sched")
    j = first(lambda e: e.get("k") == "ev" and e.get("e") == "result")
    if i is not None and j is not None and i != j:
        r = copy.deepcopy(recs); r[i], r[j] = r[j], r[i]
        yield "schedule event and result swapped", r
    i = first(lambda e: e.get("k") == "tm.arm" and e.get("t") == "until")
    if i is not None:
        r = copy.deepcopy(recs); r[i]["at"] = {"w": [], "m": [{"s": 1, "ns": 0}]}
        yield "armed deadline changed", r


def main():
    vlib.build_harness()
    wd = vlib.workdir("corrupt")
    scs = [s for s in scen.batch(4242, 60, ("oneshot", "start", "history", "ping")) if tracecheck.supported(s) is None][:24]
    log = props.run_harness(scs, wd, "clean")
    clean = tracecheck.validate(scs, log, wd, name="clean")
    ok = clean["validated"] == clean["runs"] and clean["runs"] > 0
    print("clean: %d of %d recorded runs accepted by the design model" % (clean["validated"], clean["runs"]))
    spans = list(vlib.split_log(log))
    n = caught = 0
    seen = set()
    for first, sid, lines in spans:
        recs = [json.loads(x) for x in lines]
        for name, bad in corruptions(recs):
            if name in seen:
                continue
            seen.add(name)
            p = os.path.join(wd, "bad.%d.ndjson" % n)
            open(p, "w").write("".join(json.dumps(e, separators=(",", ":")) + "\n" for e in bad))
            r = tracecheck.validate([s for s in scs if s["id"] == sid], p, wd, name="bad.%d" % n)
            hit = bool(r["rejected"] or r["drift"])
            n += 1
            caught += hit
            print("%-75s %s" % (name, "REJECTED" if hit else "accepted (!)"))
    print("corruptions rejected: %d of %d" % (caught, n))
    return 0 if ok and caught == n and n >= 5 else 1


if __name__ == "__main__":
    sys.exit(main())
