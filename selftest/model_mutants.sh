#!/bin/bash
# Calibration of the invariants: each value of Omaha.tla's constant Mut switches one action to a named design
# regression; TLC must then report the intended property's invariant as violated.  No cargo build needed.
cd /verif/spec
run() { # mut cfg prop
  sed "s/  Mut = \"none\"/  Mut = \"$1\"/; s/INVARIANT NoViolation//; /INVARIANT PrintDone/d; /^INVARIANT Inv_/d; s/^SPECIFICATION Spec/SPECIFICATION Spec\nINVARIANT Inv_$3/" $2 > /tmp/mm.$$.cfg
  extra=""   # sched_inv.cfg is exhaustive (breadth-first, stops at the first violation): no dependence on a random seed
  out=$(JAVA_TOOL_OPTIONS="-Xss1g -Xmx6g" timeout 600 tlc -workers 8 -metadir /verif/work/mm.$$ -cleanup -noGenerateSpecTE -config /tmp/mm.$$.cfg $extra MCOmaha.tla 2>&1)
  rm -rf /verif/work/mm.$$ /tmp/mm.$$.cfg
  if echo "$out" | grep -q "Invariant Inv_$3 is violated"; then echo "Mut=$1 $2 Inv_$3: VIOLATED (as intended)"; else echo "Mut=$1 $2 Inv_$3: NOT DETECTED"; fi
}
run M05 retry.cfg C02
run M06 retry.cfg C06
run M06 retry.cfg C02
run M08b retry.cfg C06
run header-before-verify retry.cfg C02
run retry-with-poll retry.cfg C06
run M42 retry.cfg C06
run M10d flow.cfg C08
run M11 retry_nocup.cfg C08
run M40 flow.cfg C04
run M47 flow.cfg C10
run M25 flow.cfg C18
run M32 sched_inv.cfg C05
run M48 flow.cfg C09
run M13 sched_inv.cfg C09
run M15 sched_inv.cfg C11
run M16 sched_inv.cfg C12
run M05 ping_cup_inv.cfg C02
