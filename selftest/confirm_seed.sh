#!/bin/bash
# confirm_seed.sh <worktree> : confirms a seeded change delivered in <worktree>/OUT independently:
#   existing suite passes with the patch; the demo passes without the patch and fails with it.
WT=$1
cd $WT || exit 2
git reset -q --hard HEAD; git clean -fdq -e OUT -e target
demo_cmd=$(python3 -c "import json;print(json.load(open('OUT/meta.json'))['demo_cmd'].replace('git apply OUT/demo.diff && ',''))")
echo "demo_cmd: $demo_cmd"
git apply OUT/patch.diff || { echo "CONFIRM patch does not apply"; exit 1; }
cargo test --workspace --offline 2>&1 | grep -E "^test result|FAILED|error(\[|:)" | sort | uniq -c | head -8
suite_rc=${PIPESTATUS[0]}
git apply OUT/demo.diff || { echo "CONFIRM demo does not apply on patch"; exit 1; }
(eval "$demo_cmd") > /tmp/confirm.$$.with 2>&1; with_rc=$?
git reset -q --hard HEAD; git clean -fdq -e OUT -e target
git apply OUT/demo.diff
(eval "$demo_cmd") > /tmp/confirm.$$.without 2>&1; without_rc=$?
git reset -q --hard HEAD; git clean -fdq -e OUT -e target
echo "CONFIRM suite_with_patch_rc=$suite_rc demo_with_patch_rc=$with_rc demo_without_patch_rc=$without_rc"
tail -3 /tmp/confirm.$$.with | cut -c1-200; rm -f /tmp/confirm.$$.*
