#!/usr/bin/env python3
"""Writes MANIFEST.json from the table of checks that exist (lib/props.py) - one source of truth."""
import json, os, sys
ROOT = os.path.dirname(os.path.dirname(os.path.abspath(__file__)))
sys.path.insert(0, os.path.join(ROOT, "lib"))
import props

ALL = ["C%02d" % i for i in range(1, 21)]
checks = []
for pid in ALL:
    d = props.describe(pid)
    if d is None:
        continue
    checks.append({
        "property_id": pid,
        "quick_cmd": "./check %s quick" % pid,
        "thorough_cmd": "./check %s thorough" % pid,
        "evidence_file": "/verif/evidence/%s.json" % pid,
        "replay_cmd_template": "./check %s quick --replay {path}" % pid,
        "engine": d["engine"],
        "level_claimed": {"category": "model_checking", "text": d["level_text"], "design_ref": d["design_ref"]},
        "level_note": d["level_note"],
        "technique": d["technique"],
    })
na = [{"property_id": p, "reason": props.NOT_YET.get(p, "check not built yet in this round; see DESIGN.md section 6 for the plan")}
      for p in ALL if props.describe(p) is None]
m = {
    "version": 1,
    "setup_cmd": "./setup.sh",
    "hooks": {"guard": "omaha_verif",
              "enable": "harness/.cargo/config.toml passes --cfg omaha_verif; no hook exists in /repo (every observable is reachable through the public embedder traits)",
              "baseline_off_cmd": "cd /repo && cargo test --workspace --no-fail-fast --offline",
              "source_commits": [], "add_only": True},
    "engines": [
        {"name": "tlc", "path": "/verif/spec", "serves_properties": [c["property_id"] for c in checks],
         "kind_free_text": "TLA+ specifications (Props.tla ghost + invariants, Omaha.tla design model, Mon.tla clause monitor over recorded logs, TraceOmaha.tla trace validation of recorded runs against the design model, function models, TimeConvProof.tla with TLAPS) checked with TLC"},
        {"name": "harness", "path": "/verif/harness", "serves_properties": [c["property_id"] for c in checks],
         "kind_free_text": "Rust crate with scripted, logging doubles of all embedder traits driving the real omaha-client through a manual executor; replays TLC/seeded scenarios and records ndjson logs"},
    ],
    "checks": checks,
    "not_applicable": na,
    "notes": "All checks rebuild the harness from /repo's working tree (path dependency). Exit 2 = tool error, never a verdict.",
}
json.dump(m, open(os.path.join(ROOT, "MANIFEST.json"), "w"), indent=1)
print("checks:", [c["property_id"] for c in checks], "not_applicable:", [x["property_id"] for x in na])
