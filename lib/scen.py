"""Scenario generation for the state-machine harness (seeded; every scenario is contract-conforming).

A scenario is {"id", "cfg", "ans": {"kind#n": answer}, "stim": [{"at": {"p", "n"}, "do": [...]}]}.
The abstract answers are concretised by the harness doubles (real bytes, real signatures).
"""
import random

COHORT_VALS = ["", "c1", "c2", "stable"]
APP_IDS = ["a", "b", "c"]


def xra_bytes(s):
    return [ord(ch) if isinstance(ch, str) else ch for ch in s]


XRA_POOL = [
    "0", "1", "5", "60", "007", "86399", "86400", "86401", "99999", "100000", "4294967295", "4294967296",
    "18446744073709551615", "18446744073709551616", "0000000000000000000000012", "1234567890123456789012345",
    "", " 5", "5 ", "1 2", "-5", "5.0", "0x10", "abc", "1e3", "+5", "٣",
]


def rand_xra(rng, p=0.35):
    if rng.random() > p:
        return []
    v = rng.choice(XRA_POOL)
    vals = [xra_bytes(v.encode("utf-8"))] if v != "" else [[]]
    vals = [[b for b in x if b >= 32 and b != 127] for x in vals]
    r = rng.random()
    if r < 0.08:
        vals = vals + vals  # duplicate, equal
    elif r < 0.12:
        vals = vals + [xra_bytes(rng.choice(["7", "9", "abc"]).encode())]  # differing duplicates: unconstrained
    elif r < 0.16:
        vals = [[0xE9, 0x31]]  # non-ASCII bytes
    return vals


def rand_cohort(rng):
    c = {}
    for k in ("id", "hint", "name"):
        if rng.random() < 0.4:
            c[k] = rng.choice(COHORT_VALS)
    return c


def rand_doc(rng, app_ids, offer_p=0.5, allow_unknown=True):
    ids = list(app_ids)
    rng.shuffle(ids)
    if rng.random() < 0.25 and len(ids) > 1:
        ids = ids[: rng.randint(1, len(ids))]
    if allow_unknown and rng.random() < 0.2:
        ids.insert(rng.randint(0, len(ids)), "zz-unknown")
    apps = []
    for i in ids:
        r = rng.random()
        if r < offer_p:
            uc = [{"status": "ok", "ver": rng.choice(["2.0.0.0", "3.1", "None", "9.9.9.9"])}]
        elif r < offer_p + 0.3:
            uc = [{"status": "noupdate", "ver": "None"}]
        elif r < offer_p + 0.4:
            uc = [{"status": rng.choice(["error-unknownApplication", "restricted", "error-internal"]), "ver": "None"}]
        else:
            uc = []
        status = "ok" if rng.random() < 0.85 else rng.choice(["restricted", "error-unknownApplication", "noupdate"])
        apps.append({"id": i, "status": status, "cohort": rand_cohort(rng), "uc": uc})
    r = rng.random()
    if r < 0.5:
        ds = [{"days": [rng.choice([1, 77, 6000, 4294967])]}]
    elif r < 0.6:
        ds = [{"days": []}]
    else:
        ds = []
    return {"apps": apps, "daystart": ds}


def n_offered(doc):
    return sum(1 for a in doc["apps"] if a["uc"] and a["uc"][0]["status"] == "ok")


def resp(status=200, auth="genuine", body=None, xra=None, wrap="plain", prefix=False, j=None):
    a = {"cls": "resp", "status": status, "auth": auth, "xra": xra or [], "wrap": wrap, "prefix": prefix,
         "body": body if body is not None else {"garbage": "empty"}}
    if j is not None:
        a["j"] = j
    return a


ETAG_RAW = ['"', '""', 'W/"', 'W/""', 'W/', '', ':', '::', '":"', 'W/":"', 'a:b', 'W/"a:b', '"a:b', 'a:b"', ' ', '\t:', 'é:é',
            '"' + 'ab' * 40 + ':' + 'cd' * 32 + '"', ':' + 'cd' * 32, 'ab' * 35 + ':']


def etag_raw(rng):
    return [b for b in rng.choice(ETAG_RAW).encode("utf-8") if b >= 32 or b == 9]


GARBAGE = ["empty", "notjson", "trunc", "noresp", "badtype", "noapp", "binary", "array"]
FORGERIES = ["forged", "tampered", "unsigned", "wrongkey", "replay", "badhash"]
BAD_STATUS = [400, 403, 404, 429, 500, 502, 503, 301, 304, 100, 199, 300, 600]


def rand_uc_answer(rng, app_ids, cup, terminal_p=0.5):
    """One per-attempt outcome from the C06 alphabet."""
    r = rng.random()
    xra = rand_xra(rng)
    wrap = rng.choice(["plain", "quoted", "weak"])
    if r < 0.12:
        return {"cls": "transport"}
    if r < 0.18:
        return {"cls": "timeout"}
    if r < 0.22:
        return {"cls": "user"}
    if r < 0.38:
        return resp(rng.choice(BAD_STATUS), xra=xra, body={"garbage": rng.choice(GARBAGE)}, wrap=wrap)
    if r < 0.50 and cup:
        f = rng.choice(FORGERIES)
        body = {"doc": rand_doc(rng, app_ids)} if rng.random() < 0.7 else {"garbage": rng.choice(GARBAGE)}
        a = resp(rng.choice([200, 200, 503]), auth=f, xra=rand_xra(rng, 0.6), body=body, wrap=wrap,
                 j=rng.randint(1, 3))
        if rng.random() < 0.3:
            a["etag_raw"] = etag_raw(rng)
        return a
    if r < 0.60:
        return resp(rng.choice([200, 201, 299]), xra=xra, body={"garbage": rng.choice(GARBAGE)}, wrap=wrap)
    return resp(rng.choice([200, 200, 200, 204]), xra=xra, body={"doc": rand_doc(rng, app_ids)}, wrap=wrap,
                prefix=rng.random() < 0.2)


def rand_report_answer(rng, cup):
    r = rng.random()
    if r < 0.6:
        return None  # default: delivered
    if r < 0.7:
        return {"cls": rng.choice(["transport", "timeout", "user"])}
    if r < 0.8:
        return resp(rng.choice(BAD_STATUS), xra=rand_xra(rng), body={"garbage": "empty"})
    if r < 0.9 and cup:
        a = resp(200, auth=rng.choice(FORGERIES), xra=rand_xra(rng, 0.6), body={"garbage": "noresp"}, j=1)
        if rng.random() < 0.3:
            a["etag_raw"] = etag_raw(rng)
        return a
    return resp(200, xra=rand_xra(rng, 0.8), body={"garbage": rng.choice(GARBAGE)})


def rand_apps(rng, n=None):
    n = n or rng.choice([1, 1, 2, 2, 3])
    ids = APP_IDS[:n]
    rng.shuffle(ids)
    apps = []
    for i in ids:
        a = {"id": i, "ver": rng.choice(["1.2.3.4", "0.9", "10.0.0.1"]), "cohort": rand_cohort(rng)}
        if rng.random() < 0.3:
            a["uc"] = rng.choice([3, 500])
        if rng.random() < 0.35:
            # several extra fields: their order in the serialised body is up to the library, but the bytes kept for
            # verification must still be the bytes sent
            a["extra"] = {"x%d" % j: "v%d" % j for j in range(rng.choice([2, 5, 8]))}
        apps.append(a)
    return apps


def rand_check_answers(rng, ans, app_ids, cup, uc_base=0, ev_base=0, k=1):
    """Answers for the k-th check of a scenario (ordinals continue from the bases)."""
    n_uc = 0
    last = None
    for i in range(3):
        a = rand_uc_answer(rng, app_ids, cup)
        ans["http.uc#%d" % (uc_base + i + 1)] = a
        n_uc += 1
        last = a
        retryable = a["cls"] in ("transport", "timeout") or (
            a["cls"] == "resp" and a["auth"] == "genuine" and not (200 <= a["status"] < 300))
        if not retryable:
            break
    for i in range(6):
        a = rand_report_answer(rng, cup)
        if a is not None:
            ans["http.ev#%d" % (ev_base + i + 1)] = a
    doc = last["body"].get("doc") if last and last["cls"] == "resp" else None
    no = n_offered(doc) if doc else 0
    r = rng.random()
    ans["inst.plan#%d" % k] = {"ok": ["plan%d" % rng.randint(1, 2)]} if r < 0.8 else {"ok": []}
    ans["pol.start#%d" % k] = rng.choice(["ok", "ok", "ok", "deferred", "denied"])
    ans["inst.install#%d" % k] = {
        "results": [rng.choice(["i", "i", "i", "d", "f"]) for _ in range(no)],
        "progress": [rng.choice([0.0, 0.25, 0.5, 0.75, 1.0]) for _ in range(rng.choice([0, 0, 1, 2, 3]))],
        "pmode": rng.choice(["seq", "seq", "conc"]),
    }
    ans["pol.rbneeded#%d" % k] = rng.random() < 0.7
    return n_uc


def oneshot_scenario(rng, sid):
    cup = rng.random() < 0.7
    apps = rand_apps(rng)
    cfg = {"mode": "oneshot", "apps": apps}
    if cup:
        cfg["cup"] = {"latest": rng.choice([1, 2]), "hist": rng.choice([[], [3], [3, 4]])}
    if rng.random() < 0.3:
        cfg["sys"] = rng.choice([a["id"] for a in apps] + ["nosuch"])
    ans = {}
    rand_check_answers(rng, ans, [a["id"] for a in apps], cup)
    return {"id": sid, "cfg": cfg, "ans": ans, "stim": []}


def retry_scenario(rng, sid):
    """One check whose first attempts fail transiently (so that back-off waits and retries are exercised)."""
    sc = oneshot_scenario(rng, sid)
    ids = [a["id"] for a in sc["cfg"]["apps"]]
    cup = "cup" in sc["cfg"]
    for i in (1, 2):
        if rng.random() < 0.85:
            r = rng.random()
            if r < 0.4:
                a = {"cls": rng.choice(["transport", "timeout"])}
            else:
                a = resp(rng.choice(BAD_STATUS), xra=rand_xra(rng, 0.15), body={"garbage": rng.choice(GARBAGE)})
            sc["ans"]["http.uc#%d" % i] = a
        else:
            sc["ans"]["http.uc#%d" % i] = rand_uc_answer(rng, ids, cup)
    sc["ans"]["http.uc#3"] = rand_uc_answer(rng, ids, cup)
    return sc


def rand_pol_next(rng):
    a = {"kind": rng.choice(["wall", "mono", "both"]), "dt": rng.choice([60, 3600, 86400]),
         "minwait": rng.choice([[], [], [30], [600]])}
    if rng.random() < 0.25:
        a["mwms"] = [rng.choice([0, 1, 500, 999, 1500, 60001])]   # sub-second and odd minimum waits
    if rng.random() < 0.3:
        # an absolute deadline ("every day at 03:00"): consecutive iterations get the identical timing
        a["abs"] = [rng.choice([5000, 5000, 90000])]
    return a


def rand_pol_check(rng):
    d = rng.choice(["ok", "ok", "ok", "okdeferred", "toosoon", "throttled", "denied"])
    return {"d": d, "src": rng.choice(["same", "same", "ondemand", "scheduledtask"]), "proxy": rng.random() < 0.5,
            "dis": rng.random() < 0.25, "same": rng.random() < 0.25}


def start_scenario(rng, sid, rounds=3, ctl_p=0.35, crash_p=0.0):
    """Continuous mode: a few loop iterations driven by timer fires and control requests."""
    cup = rng.random() < 0.6
    apps = rand_apps(rng)
    cfg = {"mode": "start", "apps": apps}
    if cup:
        cfg["cup"] = {"latest": rng.choice([1, 2]), "hist": rng.choice([[], [3]])}
    ans = {}
    stim = []
    ids = [a["id"] for a in apps]
    for k in range(1, rounds + 3):
        ans["pol.next#%d" % k] = rand_pol_next(rng)
    for k in range(1, rounds + 3):
        ans["pol.check#%d" % k] = rand_pol_check(rng)
    ucb = evb = 0
    for k in range(1, rounds + 2):
        ucb += rand_check_answers(rng, ans, ids, cup, uc_base=ucb, ev_base=evb, k=k)
        evb += 4
    for k in range(1, 6):
        ans["pol.rballowed#%d" % k] = rng.random() < 0.5
    idle = 1
    for r in range(rounds):
        if rng.random() < ctl_p:
            stim.append({"at": {"p": "idle", "n": idle},
                         "do": [{"s": "ctl", "h": rng.choice([0, 1]), "src": rng.choice(["ondemand", "scheduledtask"])}]})
            idle += 1
        else:
            # fire both timers of the wait in a random order (the "for" selector is a no-op when absent)
            order = [{"s": "fire", "sel": "for"}, {"s": "fire", "sel": "until"}]
            rng.shuffle(order)
            stim.append({"at": {"p": "idle", "n": idle}, "do": [order[0]]})
            stim.append({"at": {"p": "idle", "n": idle + 1}, "do": [order[1]]})
            idle += 2
    # a few control requests at arbitrary blocking points
    for _ in range(rng.choice([0, 0, 1, 2])):
        p = rng.choice(["http.uc", "http.ev", "pol.check", "pol.start", "inst.plan", "inst.install", "st.commit",
                        "st.set", "pol.rbneeded", "pol.rballowed", "ev", "pol.next", "inst.reboot"])
        stim.append({"at": {"p": p, "n": rng.randint(1, 6 if p != "ev" else 40)},
                     "do": [{"s": "ctl", "h": rng.choice([0, 1]), "src": rng.choice(["ondemand", "scheduledtask"])}]})
    if rng.random() < 0.15:
        stim.append({"at": {"p": rng.choice(["http.uc", "ev", "idle"]), "n": rng.randint(1, 3)},
                     "do": [{"s": "drop", "h": 0}, {"s": "drop", "h": 1}]})
    return {"id": sid, "cfg": cfg, "ans": ans, "stim": stim}


OP_POINTS = ["http.uc", "http.ev", "http.ping", "pol.next", "pol.check", "pol.start", "pol.rbneeded", "pol.rballowed",
             "inst.plan", "inst.install", "inst.reboot", "st.set", "st.rm", "st.commit", "ev", "idle"]


def history_scenario(rng, sid, rounds=6, crashes=2, clock_p=0.0, pings=True):
    """Continuous mode over several process lifetimes: crashes at arbitrary blocking points, restarts on the
    surviving storage with embedder presets in every combination, repeated install attempts, reboot waits with pings."""
    cup = rng.random() < 0.5
    apps = rand_apps(rng, rng.choice([1, 2, 2, 3]))
    ids = [a["id"] for a in apps]
    cfg = {"mode": "start", "apps": apps, "os_version": "1.0"}
    if cup:
        cfg["cup"] = {"latest": 1, "hist": [3]}
    if rng.random() < 0.4:
        cfg["sys"] = rng.choice(ids)
    ans = {}
    stim = []
    for k in range(1, 4 * rounds):
        ans["pol.next#%d" % k] = rand_pol_next(rng)
        pc = rand_pol_check(rng)
        if rng.random() < 0.5:
            pc["d"] = "ok"
        ans["pol.check#%d" % k] = pc
        ans["pol.rballowed#%d" % k] = rng.random() < 0.4
    ucb = evb = 0
    for k in range(1, rounds + 3):
        n = rand_check_answers(rng, ans, ids, cup, uc_base=ucb, ev_base=evb, k=k)
        # favour successful installs so that attempt bookkeeping is exercised
        if rng.random() < 0.6:
            doc = rand_doc(rng, ids, offer_p=0.8, allow_unknown=False)
            ans["http.uc#%d" % (ucb + 1)] = resp(200, body={"doc": doc}, xra=rand_xra(rng, 0.2))
            n = 1
            ans["inst.plan#%d" % k] = {"ok": ["plan%d" % rng.randint(1, 2)]}
            ans["pol.start#%d" % k] = "ok"
            ans["inst.install#%d" % k] = {"results": [rng.choice(["i", "i", "d", "f"]) for _ in range(n_offered(doc))],
                                          "progress": [0.5] if rng.random() < 0.3 else [], "pmode": "seq"}
        ucb += n
        evb += 4
    for k in range(1, 8):
        r = rng.random()
        ans["http.ping#%d" % k] = (resp(200, body={"doc": rand_doc(rng, ids, offer_p=0.0)}, xra=rand_xra(rng, 0.3)) if r < 0.6
                                  else rand_uc_answer(rng, ids, cup))
    for n in range(1, 3 * rounds):
        do = [{"s": "fire", "sel": "for"}, {"s": "fire", "sel": "until"}]
        if rng.random() < 0.3:
            do = [{"s": "fire", "sel": "for", "secs": 1800}]
        if rng.random() < 0.15:
            do = [{"s": "ctl", "h": 0, "src": rng.choice(["ondemand", "scheduledtask"])}]
        stim.append({"at": {"p": "idle", "n": n}, "do": do})
    for _ in range(crashes):
        p = rng.choice(OP_POINTS)
        run = {}
        r = rng.random()
        if r < 0.5:
            run["os_version"] = rng.choice(["2.0.0.0", "3.1", "9.9.9.9", "UNKNOWN", "1.0"])
        if rng.random() < 0.5:
            # the embedder re-creates the app set; presets in any combination
            run["apps"] = [dict(a, cohort=rand_cohort(rng), **({"uc": rng.choice([3, 500])} if rng.random() < 0.3 else {}))
                           for a in apps]
            for a in run["apps"]:
                if rng.random() < 0.7:
                    a.pop("uc", None)
        stim.append({"at": {"p": p, "n": rng.randint(1, 12 if p not in ("ev", "st.set", "st.rm") else 40)},
                     "do": [{"s": "crash", "run": run}]})
    if clock_p and rng.random() < clock_p:
        for _ in range(rng.choice([1, 2])):
            p = rng.choice(OP_POINTS)
            stim.append({"at": {"p": p, "n": rng.randint(1, 10)},
                         "do": [{"s": "clock", "dw": rng.choice([-100000000, -3600, -1, 1, 3600, 100000000]), "dm": 0}]})
    return {"id": sid, "cfg": cfg, "ans": ans, "stim": stim}


def ping_scenario(rng, sid):
    """A successful install whose reboot is refused, then a long reboot wait: pings (genuine, failing, forged, replayed),
    reboot-timer fires, control requests."""
    cup = rng.random() < 0.75
    apps = rand_apps(rng, rng.choice([1, 2, 3]))
    ids = [a["id"] for a in apps]
    cfg = {"mode": "start", "apps": apps}
    if cup:
        cfg["cup"] = {"latest": 1, "hist": [3]}
    ans = {}
    doc = rand_doc(rng, ids, offer_p=0.9, allow_unknown=False)
    if n_offered(doc) == 0:
        doc["apps"][0]["uc"] = [{"status": "ok", "ver": "2.0.0.0"}]
    ans["http.uc#1"] = resp(200, body={"doc": doc})
    ans["inst.plan#1"] = {"ok": ["plan1"]}
    ans["pol.start#1"] = "ok"
    ans["pol.check#1"] = {"d": "ok", "src": rng.choice(["same", "ondemand"]), "proxy": True, "dis": False, "same": False}
    ans["inst.install#1"] = {"results": ["i"] * n_offered(doc), "progress": [], "pmode": "seq"}
    ans["pol.rbneeded#1"] = True
    nping = rng.randint(3, 7)
    for k in range(1, nping + 3):
        ans["pol.rballowed#%d" % k] = k > nping or rng.random() < 0.1
        ans["pol.next#%d" % (k + 1)] = rand_pol_next(rng)
        r = rng.random()
        if r < 0.35:
            a = resp(200, body={"doc": rand_doc(rng, ids, offer_p=0.0)}, xra=rand_xra(rng, 0.4))
        elif r < 0.5:
            a = resp(rng.choice([200, 503]), xra=rand_xra(rng, 0.5), body={"garbage": rng.choice(GARBAGE)})
        elif r < 0.6:
            a = {"cls": rng.choice(["transport", "timeout", "user"])}
        elif cup:
            a = resp(rng.choice([200, 200, 503]), auth=rng.choice(FORGERIES), xra=rand_xra(rng, 0.7),
                     body={"doc": rand_doc(rng, ids, offer_p=0.3)}, j=rng.randint(1, 4))
            if rng.random() < 0.2:
                a["etag_raw"] = etag_raw(rng)
        else:
            a = resp(200, body={"doc": rand_doc(rng, ids, offer_p=0.0)}, xra=rand_xra(rng, 0.4))
        ans["http.ping#%d" % k] = a
    stim = [{"at": {"p": "idle", "n": 1}, "do": [{"s": "fire", "sel": "for"}, {"s": "fire", "sel": "until"}]}]
    for n in range(2, 2 + 2 * nping):
        r = rng.random()
        if r < 0.6:
            do = [{"s": "fire", "sel": "for", "secs": rng.choice([30, 600])}, {"s": "fire", "sel": "until"}]
        elif r < 0.8:
            do = [{"s": "fire", "sel": "for", "secs": 1800}]
        else:
            do = [{"s": "ctl", "h": rng.choice([0, 1]), "src": rng.choice(["ondemand", "scheduledtask"])}]
        stim.append({"at": {"p": "idle", "n": n}, "do": do})
    if rng.random() < 0.3:
        stim.append({"at": {"p": "http.ping", "n": rng.randint(1, 3)}, "do": [{"s": "crash", "run": {}}]})
    return {"id": sid, "cfg": cfg, "ans": ans, "stim": stim}


EXTREME_INTS = ["0", "1", "-1", "4294967295", "4294967296", "2147483647", "9223372036854775807", "-9223372036854775808",
                "1700000000000000", "86400000000", "-5000000"]
WEIRD_URLS = ["not a url", "", "http://[::1]:8080/x?y=1", "http://h/ path", "https://h:99999/", "http://h/%zz?a=b&c",
              "/relative", "http://h/a?b#c", "http://user@h/x", "h:1"]


def robust_scenario(rng, sid, idx=0):
    """C14: extreme stored values, wrong types, clock jumps, odd URLs, arbitrary statuses / headers / bodies."""
    sc = history_scenario(rng, sid, rounds=3, crashes=rng.choice([0, 1]), clock_p=0.8) if rng.random() < 0.6 \
        else oneshot_scenario(rng, sid)
    st = {}
    keys = ["last_update_time", "server_dictated_poll_interval", "consecutive_failed_update_checks",
            "consecutive_failed_install_attempts", "update_first_seen_time", "update_finish_time", "install_plan_id",
            "target_version"] + [a["id"] for a in sc["cfg"]["apps"]]
    for k in keys:
        r = rng.random()
        if r < 0.45:
            continue
        if r < 0.8:
            st[k] = {"i": rng.choice(EXTREME_INTS)}
        elif r < 0.9:
            st[k] = {"s": rng.choice(["", "plan1", "1.0", "{}", "{\"cohort\":{},\"user_counting\":{\"ClientRegulatedByDate\":null}}",
                                       "{\"cohort\":5}", "\u00e9"])}
        else:
            st[k] = {"b": True}
    sc["cfg"]["storage"] = st
    if rng.random() < 0.25:
        sc["cfg"]["url"] = rng.choice(WEIRD_URLS)
    sc["cfg"]["robust"] = True
    # every degenerate ETag text is served at least once per run (round robin over the pool), on the first update check
    if "cup" in sc["cfg"] and idx % 2 == 0:
        raw = ETAG_RAW[(idx // 2) % len(ETAG_RAW)]
        a = resp(rng.choice([200, 503]), auth="forged", body={"garbage": "noresp"}, xra=rand_xra(rng, 0.5))
        a["etag_raw"] = [b for b in raw.encode("utf-8") if b >= 32 or b == 9]
        sc["ans"]["http.uc#1"] = a
    return sc


def twins_of(base, op_counts, rng, max_twins=12):
    """C14 transparency: copies of `base` with every single (and some pairs of) storage operations failing."""
    ops = []
    for kind in ("st.set", "st.rm", "st.commit"):
        for n in range(1, op_counts.get(kind, 0) + 1):
            ops.append("%s#%d" % (kind, n))
    sets = [[o] for o in ops]
    for _ in range(len(ops)):
        if len(ops) >= 2:
            sets.append(rng.sample(ops, 2))
    rng.shuffle(sets)
    out = []
    for i, fs in enumerate(sets[:max_twins]):
        t = {"id": "%s~f%d" % (base["id"], i), "cfg": dict(base["cfg"], twin=True), "ans": dict(base["ans"]),
             "stim": base["stim"]}
        for o in fs:
            t["ans"][o] = "err"
        out.append(t)
    return out


def tie_scenario(rng, sid):
    """Continuous mode under a SLOW consumer: the stream is held back (`hold`) while several things happen, so that
    when it is polled again a wait's timers, control requests and operation completions are ready at the same time
    (the ties of the machine's select! / join, which one stimulus per poll never produces)."""
    wfr = rng.random() < 0.4
    sc = ping_scenario(rng, sid) if wfr else start_scenario(rng, sid, rounds=0, ctl_p=0.0)
    sc["stim"] = [] if not wfr else sc["stim"][:1]

    def ctl():
        return {"s": "ctl", "h": rng.choice([0, 1]), "src": rng.choice(["ondemand", "scheduledtask"])}
    first = 2 if wfr else 1
    for n in range(first, first + 4):
        kind = rng.choice(["timers+ctl", "ctl+timers", "two-ctl", "timers-together", "ctl+partial", "plain"] +
                          (["rb+ping", "rb+ctl"] if wfr else []))
        fa, fb = {"s": "fire", "sel": "for"}, {"s": "fire", "sel": "until"}
        if rng.random() < 0.5:
            fa, fb = fb, fa
        rb = {"s": "fire", "sel": "for", "secs": 1800}
        do = {"timers+ctl": [fa, fb, ctl()], "ctl+timers": [ctl(), fa, fb], "two-ctl": [ctl(), ctl()],
              "timers-together": [fa, fb], "ctl+partial": [fb, ctl()], "plain": [fa, fb],
              "rb+ping": [rb, fa, fb], "rb+ctl": [rb, ctl()]}[kind]
        if kind != "plain":
            do = [{"s": "hold", "n": len(do)}] + do
        sc["stim"].append({"at": {"p": "idle", "n": n}, "do": do})
    # a request that arrives together with the completion of an operation
    for _ in range(rng.choice([0, 1, 2])):
        p = rng.choice(["http.uc", "http.ev", "inst.plan", "pol.start", "inst.install", "pol.rbneeded", "http.ping", "pol.rballowed"])
        sc["stim"].append({"at": {"p": p, "n": rng.randint(1, 3)}, "do": [{"s": "hold", "n": 1}, ctl()]})
    return sc


def batch(seed, n, kinds=("oneshot", "start")):
    rng = random.Random(seed)
    out = []
    for i in range(n):
        kind = kinds[i % len(kinds)]
        sid = "%s-%d-%d" % (kind, seed, i)
        if kind == "oneshot":
            out.append(oneshot_scenario(rng, sid))
        elif kind == "retry":
            out.append(retry_scenario(rng, sid))
        elif kind == "history":
            out.append(history_scenario(rng, sid))
        elif kind == "ping":
            out.append(ping_scenario(rng, sid))
        elif kind == "robust":
            out.append(robust_scenario(rng, sid, i))
        elif kind == "tie":
            out.append(tie_scenario(rng, sid))
        else:
            out.append(start_scenario(rng, sid))
    return out


if __name__ == "__main__":
    import json
    import sys
    seed = int(sys.argv[1]) if len(sys.argv) > 1 else 1
    n = int(sys.argv[2]) if len(sys.argv) > 2 else 10
    kinds = tuple(sys.argv[3].split(",")) if len(sys.argv) > 3 else ("oneshot", "start")
    for s in batch(seed, n, kinds):
        print(json.dumps(s))
