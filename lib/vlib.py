"""Shared plumbing for the checks: building the harness, running TLC, the trace monitor, evidence."""
import json
import os
import re
import shutil
import subprocess
import time

ROOT = os.path.dirname(os.path.dirname(os.path.abspath(__file__)))
SPEC = os.path.join(ROOT, "spec")
HARNESS = os.path.join(ROOT, "harness")
VH = os.path.join(HARNESS, "target", "debug", "vh")
WORK = os.path.join(ROOT, "work")
EVID = os.path.join(ROOT, "evidence")
REPO = "/repo"


class ToolError(Exception):
    pass


def workdir(name):
    d = os.path.join(WORK, name)
    shutil.rmtree(d, ignore_errors=True)
    os.makedirs(d, exist_ok=True)
    return d


_built = False


def build_harness():
    """Always rebuilds from /repo's working tree (path dependency; cargo's own change detection)."""
    global _built
    if _built:
        return
    lock_src = os.path.join(REPO, "Cargo.lock")
    lock_dst = os.path.join(HARNESS, "Cargo.lock")
    try:
        if not os.path.exists(lock_dst) or open(lock_src, "rb").read() != open(lock_dst, "rb").read():
            if not os.path.exists(lock_dst):
                shutil.copy(lock_src, lock_dst)
    except OSError:
        pass
    env = dict(os.environ, CARGO_NET_OFFLINE="true")
    p = subprocess.run(["cargo", "build", "--offline", "--quiet"], cwd=HARNESS, env=env,
                       stdout=subprocess.PIPE, stderr=subprocess.STDOUT, text=True)
    if p.returncode != 0:
        # a tree that does not compile is not a verdict about a property
        raise ToolError("harness build failed:\n" + p.stdout[-4000:])
    _built = True


class HarnessTimeout(Exception):
    pass


def run_vh(args, stdin=None, timeout=1200):
    build_harness()
    try:
        p = subprocess.run([VH] + args, input=stdin, stdout=subprocess.PIPE, stderr=subprocess.PIPE, text=True,
                           timeout=timeout)
    except subprocess.TimeoutExpired:
        # the code under test spins without ever blocking on its environment: no log can be completed
        raise HarnessTimeout("the harness did not finish within %d s" % timeout)
    return p


JAVA_OPTS = "-Xss1g -Dtlc2.tool.queue.IStateQueue=StateDeque"


def tlc(module, cfg, workers=8, env=None, timeout=1500, extra=None, heap="8g", deque=False, name=None):
    """Runs TLC on spec/<module>.tla with spec/<cfg>.  Returns (rc, output, stats)."""
    md = workdir("tlc." + (name or (module + "." + os.path.basename(cfg))))
    e = dict(os.environ)
    e["JAVA_TOOL_OPTIONS"] = ("-Xss1g -Xmx%s" % heap) + (" -Dtlc2.tool.queue.IStateQueue=StateDeque" if deque else "")
    if env:
        e.update(env)
    cmd = ["timeout", str(timeout), "tlc", "-workers", str(workers), "-metadir", md, "-cleanup",
           "-noGenerateSpecTE", "-config", cfg] + (extra or []) + [module + ".tla"]
    t0 = time.time()
    p = subprocess.run(cmd, cwd=SPEC, env=e, stdout=subprocess.PIPE, stderr=subprocess.STDOUT, text=True)
    shutil.rmtree(md, ignore_errors=True)
    if "java.lang.OutOfMemoryError" in p.stdout and "-Xmx" in e["JAVA_TOOL_OPTIONS"]:
        # seen once under memory pressure from other processes: one retry with a larger heap, then it is a tool error
        e["JAVA_TOOL_OPTIONS"] = re.sub(r"-Xmx\w+", "-Xmx16g", e["JAVA_TOOL_OPTIONS"])
        p = subprocess.run(cmd, cwd=SPEC, env=e, stdout=subprocess.PIPE, stderr=subprocess.STDOUT, text=True)
        shutil.rmtree(md, ignore_errors=True)
    out = p.stdout
    stats = {"wall_s": round(time.time() - t0, 1)}
    m = re.search(r"(\d+) states generated, (\d+) distinct states found", out)
    if m:
        stats["transitions"] = int(m.group(1))
        stats["states"] = int(m.group(2))
    m = re.search(r"The number of states generated: (\d+)", out)
    if m and "states" not in stats:
        # simulation mode: states visited along the generated traces (not distinct)
        stats["states"] = int(m.group(1))
        stats["transitions"] = int(m.group(1))
    m = re.search(r"The depth of the complete state graph search is (\d+)", out)
    if m:
        stats["depth"] = int(m.group(1))
    if p.returncode == 124:
        raise ToolError("TLC timed out on %s/%s" % (module, cfg))
    return p.returncode, out, stats


def monitor(log_path, prop, name=None, timeout=1500):
    """Feeds a recorded log to Mon.tla.  Returns (rejects, n_lines) where rejects = [(line, [(prop, clause)])]."""
    env = {"TRACE": os.path.abspath(log_path), "PROP": prop}
    rc, out, stats = tlc("Mon", "Mon.cfg", workers=1, env=env, timeout=timeout, deque=True, heap="6g",
                         name=name or ("mon." + prop))
    rejects = []
    for m in re.finditer(r'"MONITOR-REJECT (\d+) (\{.*?\})"', out):
        clauses = re.findall(r'<<\\?"(C\d+)\\?", \\?"([^"\\]+)\\?">>', m.group(2))
        rejects.append((int(m.group(1)), clauses))
    done = re.search(r'"MONITOR-DONE (\d+) (\d+)"', out)
    if not done or done.group(1) != done.group(2):
        raise ToolError("monitor did not consume the log (%s):\n%s" % (log_path, out[-3000:]))
    return rejects, int(done.group(2)), stats


def split_log(log_path):
    """Yields (first_line_no, scenario_id, [lines]) per scenario of a concatenated log."""
    cur = None
    with open(log_path) as f:
        for i, line in enumerate(f, 1):
            if '"k":"cfg"' in line:
                if cur:
                    yield cur
                try:
                    sid = json.loads(line).get("id", "?")
                except ValueError:
                    sid = "?"
                cur = (i, sid, [line])
            elif cur:
                cur[2].append(line)
    if cur:
        yield cur


def load_known():
    p = os.path.join(ROOT, "known_findings.json")
    if not os.path.exists(p):
        return []
    return json.load(open(p)).get("findings", [])


def known_match(pid, key):
    for k in load_known():
        if k.get("property") == pid and re.search(k.get("match", "$^"), key):
            return k
    return None


def write_replay(pid, name, obj):
    d = os.path.join(WORK, "replays", pid)
    os.makedirs(d, exist_ok=True)
    p = os.path.join(d, name)
    with open(p, "w") as f:
        if isinstance(obj, str):
            f.write(obj)
        else:
            json.dump(obj, f, indent=1)
    return p


def report(pid, violations):
    """violations: list of dicts {key, replay, what}.  Prints VIOLATION / KNOWN-FINDING lines; returns exit code."""
    rc = 0
    seen = set()
    unknown = 0
    for v in violations:
        k = known_match(pid, v["key"])
        if k:
            tag = "KNOWN-FINDING: property=%s %s" % (pid, k.get("what", v["key"]))
            if tag not in seen:
                print(tag)
                seen.add(tag)
        else:
            unknown += 1
            if unknown <= 6:
                print("VIOLATION property=%s replay=%s" % (pid, v["replay"]))
                print("  what: %s" % v.get("what", v["key"])[:500])
            rc = 1
    if unknown > 6:
        print("  ... %d further violations not listed" % (unknown - 6))
    return rc


def write_evidence(pid, tier, seed, level, coverage, assumptions, t0, violations):
    os.makedirs(EVID, exist_ok=True)
    ev = {"property_id": pid, "tier": tier, "seed": seed, "level": level, "coverage": coverage,
          "assumptions": assumptions, "wall_s": round(time.time() - t0, 2), "violations": violations}
    with open(os.path.join(EVID, pid + ".json"), "w") as f:
        json.dump(ev, f, indent=1)
