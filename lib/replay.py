"""Spec -> implementation: turns behaviours printed by TLC (Omaha.tla, PrintDone) into harness scenarios and
compares the predicted log with the log recorded from the real code on a projection."""
import json
import re


def norm(v):
    """{} and [] are the same empty thing (TLA+ has one empty function); drop nothing else."""
    if isinstance(v, dict):
        if not v:
            return []
        return {k: norm(x) for k, x in v.items()}
    if isinstance(v, list):
        return [norm(x) for x in v]
    return v


def behaviours(tlc_out):
    """Yields {"script": [...], "obs": [...]} for every BEHAVIOUR line of a TLC run (deduplicated)."""
    seen = set()
    for m in re.finditer(r'^"BEHAVIOUR (.*)"$', tlc_out, re.M):
        raw = m.group(1)
        if raw in seen:
            continue
        seen.add(raw)
        yield json.loads(json.loads('"' + raw + '"'))


RECORD_KEYS = ("cohort", "extra")


def records(v):
    """TLA+ has one empty function; ToJson prints it as []. Fields that are records in the log alphabet get {} back,
    otherwise TLC's Json module would read an empty tuple where the harness logs an empty record."""
    if isinstance(v, dict):
        return {k: ({} if k in RECORD_KEYS and x == [] else records(x)) for k, x in v.items()}
    if isinstance(v, list):
        return [records(x) for x in v]
    return v


def harness_apps(model_apps):
    """The embedder's app list in the harness's input format (the model writes options as sequences)."""
    apps = []
    for a in model_apps:
        x = {"id": a["id"], "ver": a["ver"], "cohort": a["cohort"] if isinstance(a["cohort"], dict) else {}}
        if a["uc"]:
            x["uc"] = a["uc"][0]
        apps.append(x)
    return apps


def to_scenario(beh, sid):
    run = beh["obs"][0]["run"]
    apps = harness_apps(run["apps"])
    cfg = {"mode": run["mode"], "apps": apps, "sys": run["sys"], "os_version": run["os"]}
    if run["cup"]:
        cfg["cup"] = {"latest": run["kid"], "hist": []}
    ans = {}
    stim = []
    for it in beh["script"]:
        if "key" in it:
            a = records(it["ans"])
            if it["key"] == "inst.install" and isinstance(a, dict) and a.get("progress"):
                # the model counts progress in thousandths, the installer double takes fractions
                a = dict(a, progress=[x / 1000.0 for x in a["progress"]])
            ans["%s#%d" % (it["key"], it["n"])] = a
        else:
            do = dict(it["do"])
            if "run" in do and "apps" in do["run"]:
                do["run"] = dict(do["run"], apps=harness_apps(do["run"]["apps"]))
            stim.append({"at": {"p": it["p"], "n": it["n"]}, "do": [do]})
    return {"id": sid, "cfg": cfg, "ans": ans, "stim": stim}


KEEP_MET = {"resp_time": ["ok", "d"], "rpc": ["count", "ok"], "lost": [], "fail_reason": ["r"], "att_check": ["count"],
            "att_install": ["count", "ok"], "waited": ["d"], "interval": ["d", "clock", "src"], "ok_duration": ["d"],
            "fail_duration": ["d"], "first_seen": ["d"]}


def pick(d, keys):
    return {k: norm(d.get(k)) for k in keys}


def proj(e):
    """Projection of one log line to what the design model predicts; None = not predicted (dropped)."""
    k = e["k"]
    t = {"tw": e.get("tw"), "tm": e.get("tm")}
    if k in ("cfg", "cupv", "cupd", "end"):
        return None
    if k == "ev":
        ee = e["e"]
        if ee == "state":
            return dict(t, k="state", s=e["s"], src=e.get("src"))
        if ee == "sched":
            return dict(t, k="sched", **pick(e, ["lut", "lct", "next"]))
        if ee == "pstate":
            return dict(t, k="pstate", **pick(e, ["poll", "fails"]))
        if ee == "result":
            return dict(t, k="result", ok=e["ok"], err=e["err"],
                        apps=[pick(a, ["id", "action", "cohort", "uc"]) for a in e["apps"]])
        if ee == "resp":
            return dict(t, k="resp", days=norm(e["days"]),
                        apps=[pick(a, ["id", "status", "cohort", "uc", "ver"]) for a in e["apps"]])
        if ee == "progress":
            return dict(t, k="progress", p=e["p"])
        return dict(t, k=ee)
    if k.startswith("http."):
        apps = []
        for a in e["req"]["apps"]:
            x = pick(a, ["id", "ver", "cohort", "ping", "ev"])
            x["uc"] = [pick(u, ["dis", "same"]) for u in a["uc"]]
            apps.append(x)
        return dict(t, k=k, apps=apps, src=e["req"]["src"], rid=e["req"]["rid"], sid=e["req"]["sid"],
                    inter=e["hdr"]["inter"], appid=e["hdr"]["appid"],
                    nonce=[c["nonce"] for c in e["url"]["cup2key"]],
                    ans=pick(e["ans"], ["cls", "status", "auth", "xra"]))
    if k == "met":
        if e["m"] not in KEEP_MET:
            return None
        return dict(t, k="met", m=e["m"], **pick(e, KEEP_MET[e["m"]]))
    if k == "tm.arm":
        ms = e.get("ms")
        # the back-off draw is the library's own randomness: compare the window, not the value (abstraction map 4.3)
        if ms is not None and 500 <= ms < 2500:
            ms = "window1" if ms < 1500 else "window2"
        return dict(t, k=k, tid=e["tid"], t=e["t"], ms=ms, at=norm(e.get("at")))
    if k == "tm.fire":
        return dict(t, k=k, tid=e["tid"])
    if k in ("pol.next", "pol.check"):
        return dict(t, k=k, src=e.get("src"), ans=norm(e["ans"]), **pick(e, ["apps", "sched", "ps"]))
    if k in ("pol.start", "pol.rbneeded", "pol.rballowed"):
        return dict(t, k=k, ans=e["ans"], src=e.get("src"))
    if k == "inst.plan":
        return dict(t, k=k, ans=norm(e["ans"]), params=pick(e["params"], ["src", "dis", "same"]),
                    **pick(e, ["meta", "meta_eq", "wire_eq", "bytes_eq", "sig", "sig_eq", "n_offered"]))
    if k == "inst.install":
        return dict(t, k=k, results=e["ans"]["results"])
    if k == "inst.prog":
        return dict(t, k=k, p=e["p"])
    if k in ("st.set", "st.rm"):
        return dict(t, k=k, key=e["key"], v=norm(e.get("v")), ans=e["ans"])
    if k == "st.commit":
        return dict(t, k=k, snap=norm(e["snap"]), ans=e["ans"])
    if k == "ctl.send":
        return dict(k=k, req=e["req"], src=e["src"])
    if k == "ctl.reply":
        return dict(k=k, req=e["req"], ans=e["ans"])
    return dict(t, k=k)


def project_log(lines):
    main, ctl = [], []
    for e in lines:
        p = proj(e)
        if p is None:
            continue
        if p["k"] == "ctl.reply":
            ctl.append(json.dumps(p, sort_keys=True))
        else:
            main.append(p)
    return main, sorted(ctl)


def diff(pred, rec):
    """First difference between predicted and recorded logs on the projection, or None."""
    pm, pc = project_log(pred)
    rm, rc = project_log(rec)
    for i in range(max(len(pm), len(rm))):
        a = pm[i] if i < len(pm) else None
        b = rm[i] if i < len(rm) else None
        if json.dumps(a, sort_keys=True) != json.dumps(b, sort_keys=True):
            return {"index": i, "predicted": a, "recorded": b}
    if pc != rc:
        return {"index": -1, "predicted": pc, "recorded": rc}
    return None
