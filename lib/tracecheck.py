"""Trace validation of recorded runs against the design model (spec/TraceOmaha.tla).

The recorded log of the real code under random scripts is filtered to the lines the design model predicts, fed to
TLC, which re-runs Omaha.tla with every environment choice bound to what was recorded, and the model's predicted log
is compared field by field (replay.proj) with the recording."""
import json
import os
import re

import replay
import vlib

OP_POINTS = ("idle", "http.uc", "http.ev", "http.ping", "inst.plan", "pol.start", "inst.install", "pol.rbneeded")
STIMS = ("fire", "ctl", "clock", "crash", "restart", "end", "drop", "hold")


def supported(sc):
    """Is the scenario within what the design model describes? (otherwise it is only monitored)"""
    cfg = sc.get("cfg", {})
    if cfg.get("storage") or cfg.get("t0") or cfg.get("twin") or cfg.get("url"):
        return "initial storage / clock / url"
    for s in sc.get("stim", []):
        # a crash or a cut is matched at any await (TraceOmaha!CutAt); the other stimuli only where the model has
        # a blocking point of its own
        if s["at"]["p"] not in OP_POINTS and any(d.get("s") not in ("crash", "restart", "end") for d in s["do"]):
            return "stimulus at " + s["at"]["p"]
        for d in s["do"]:
            if d.get("s") not in STIMS:
                return "stimulus " + str(d.get("s"))
            if d.get("s") == "clock" and d.get("dm", 0) != 0:
                return "monotonic clock step"
    for k, a in sc.get("ans", {}).items():
        if k.startswith("inst.install") and isinstance(a, dict) and a.get("pmode", "seq") not in ("seq", "conc"):
            return "racing progress"
    return None


def keep(e):
    k = e.get("k")
    if k in ("cfg", "end"):
        return True
    if k in ("ctl.reply", "tm.nofire", "ctl.drop", "ctl.nohandle"):
        # (a fire stimulus that selects no armed timer, and a request through a dropped handle, never reach the
        # machine; dropping the handles only closes a channel the machine keeps listening on: the design model
        # says scheduled operation goes on unchanged, which is what the rest of the run is checked against)
        return False
    return replay.proj(e) is not None


def validate(scs, log_path, wd, name="trace", prop=None, max_runs=None, chunk_lines=40000):
    """Returns dict(validated, skipped{reason:count}, rejected[list], drift[list], stats).  The recorded runs are fed
    to TLC in chunks of about `chunk_lines` lines (one JVM and one JSON load per chunk)."""
    by_id = {s["id"]: s for s in scs}
    skipped, chunks, cur, n_runs, n_lines = {}, [], [], 0, 0
    for first, sid, lines in vlib.split_log(log_path):
        sc = by_id.get(sid)
        why = "not a scripted scenario" if sc is None else supported(sc)
        recs = [json.loads(x) for x in lines]
        if why is None and any(e.get("k") in ("panic", "hang") for e in recs):
            why = "panic / hang recorded"
        if why is None and max_runs is not None and n_runs >= max_runs:
            why = "beyond this tier's budget"
        if why:
            skipped[why] = skipped.get(why, 0) + 1
            continue
        kept = [dict(e, atk=str(e.get("at", "")).split("#")[0]) if e.get("k") == "crash" else e for e in recs if keep(e)]
        # the replies of the run, by request: "_" keeps the record non-empty (an empty JSON object is not a TLA+ record)
        rep = {"_": "none"}
        for e in recs:
            if e.get("k") == "ctl.reply":
                rep[str(e["req"])] = e["ans"]
        kept[0] = dict(kept[0], replies=rep)
        if cur and sum(len(r["kept"]) for r in cur) + len(kept) > chunk_lines:
            chunks.append(cur)
            cur = []
        cur.append({"id": sid, "kept": kept, "recorded": recs})
        n_runs += 1
        n_lines += len(kept)
    if cur:
        chunks.append(cur)
    res = {"validated": 0, "skipped": skipped, "rejected": [], "drift": [], "runs": n_runs, "lines": n_lines,
           "stats": {"states": 0, "transitions": 0, "wall_s": 0, "tlc_runs": len(chunks)}, "design_violations": []}
    if not chunks:
        return res
    cfg = "trace.cfg"
    if prop:
        text = open(os.path.join(vlib.SPEC, cfg)).read().replace("INVARIANT NoViolation", "INVARIANT Inv_" + prop)
        cfg = os.path.join(wd, prop + ".trace.cfg")
        open(cfg, "w").write(text)
    for ci, runs in enumerate(chunks):
        out_path = os.path.join(wd, "%s.%d.filtered.ndjson" % (name, ci))
        n = 0
        with open(out_path, "w") as f:
            for r in runs:
                r["first"] = n + 1
                for e in r["kept"]:
                    f.write(json.dumps(e) + "\n")
                n += len(r["kept"])
                r["last"] = n
        rc, out, st = vlib.tlc("TraceOmaha", cfg, workers=8, name="%s.%d" % (name, ci), timeout=900, extra=["-continue"],
                               env={"TRACE": os.path.abspath(out_path),
                                    "JAVA_TOOL_OPTIONS": "-Xss1g -Xmx8g -Dtlc2.tool.impl.Tool.cdot=true"})
        for k in ("states", "transitions", "wall_s"):
            res["stats"][k] = round(res["stats"][k] + st.get(k, 0), 1)
        open(os.path.join(wd, "%s.%d.tlc.out" % (name, ci)), "w").write(out)
        if rc not in (0, 12, 13) or "Error: Evaluating" in out or "TLC threw" in out:
            i = out.find("Error:")
            raise vlib.ToolError("TLC failed on TraceOmaha: " + out[i:i + 3000])
        if "is violated" in out:
            res["design_violations"] = sorted(set(res["design_violations"]) | set(re.findall(r"Invariant (Inv_C\d+|NoViolation) is violated", out)))
        prog = {}
        for m in re.finditer(r'"TP (\d+) (\d+) (\w+)"', out):
            lim, l = int(m.group(1)), int(m.group(2))
            if l >= prog.get(lim, (0, ""))[0]:
                prog[lim] = (l, m.group(3))
        # several explanations of one run may survive inside TLC (silent steps in either order): the run is accepted
        # if ONE of them predicts every field
        pred = {}
        for b in replay.behaviours(out):
            if b["l"] == b["lim"] and len(pred.setdefault(b["lim"], [])) < 40:
                pred[b["lim"]].append(b)
        for r in runs:
            l, pc = prog.get(r["last"], (r["first"] - 1, "?"))
            cands = pred.get(r["last"])
            if l < r["last"] or not cands:
                kept = r["kept"]
                nxt = kept[l - r["first"] + 1] if l - r["first"] + 1 < len(kept) else None
                res["rejected"].append({"scenario": r["id"], "matched": l - r["first"] + 1, "of": r["last"] - r["first"] + 1,
                                        "pc": pc, "next_recorded": nxt})
                continue
            rec_ = [e for e in r["recorded"] if e.get("k") not in ("tm.nofire", "ctl.drop", "ctl.nohandle")]
            d = None
            for b in cands:
                d = replay.diff(b["obs"], rec_)
                if not d:
                    break
            if d:
                res["drift"].append({"scenario": r["id"], "first_difference": d})
            else:
                res["validated"] += 1
        os.remove(out_path)
    return res
