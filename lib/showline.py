#!/usr/bin/env python3
"""showline.py <log> <line> [ctx]: prints the scenario containing <line>, abbreviated, up to that line."""
import json, sys
lines = open(sys.argv[1]).read().split('\n')
i = int(sys.argv[2]) - 1
ctx = int(sys.argv[3]) if len(sys.argv) > 3 else 40
j = i
while '"k":"cfg"' not in lines[j]:
    j -= 1
def ab(l):
    e = json.loads(l)
    k = e['k']
    if k.startswith('http'):
        a = e['ans']
        return "%s#%d %s st=%s auth=%s xra=%s body=%s | rid=%s sid=%s tm=%s" % (k, e['n'], a.get('cls'), a.get('status'), a.get('auth'), a.get('xra'), json.dumps(a.get('body'))[:150], e['req']['rid'], e['req']['sid'], e['tm'])
    if k in ('pol.next', 'pol.check'):
        return "%s#%d ans=%s ps=%s lut=%s src=%s tm=%s" % (k, e['n'], json.dumps(e['ans']), json.dumps(e['ps']), json.dumps(e['sched']['lut']), e.get('src'), e['tm'])
    return l[:300]
print(ab(lines[j]))
for l in lines[max(j + 1, i - ctx):i + 1]:
    print(ab(l))
