"""Per-property check runners."""
import hashlib
import json
import os
import random
import re
import time

import scen
import vlib

SM_PROPS = {
    # id: (title, regex that makes a recorded scenario non-trivial for this property)
    "C02": ("unauthenticated responses never influence the updater",
            r'"auth":"(forged|tampered|unsigned|wrongkey|replay|badhash)"'),
    "C03": ("every CUP request is freshly and faithfully decorated", r'"cup2key":\[\{'),
    "C04": ("announced states and result match what happened", r'"e":"result"'),
    "C05": ("policy consent gates every network, install and reboot action",
            r'"k":"pol\.(check|start|rballowed)"'),
    "C06": ("retries are bounded, only for transient failures, and backed off", r'"k":"http\.uc","kind":"uc".*"n":[23]|"cls":"(transport|timeout|user)"'),
    "C07": ("server-dictated poll interval is honoured", r'"xra":\[\['),
    "C08": ("protocol bookkeeping is exact, durable and crash-consistent", r'"e":"result"|"k":"http\.ping"'),
    "C09": ("cohort and user-counting data follow the server and persist", r'"cohort":\{"'),
    "C10": ("every update outcome is reported to Omaha exactly once", r'"k":"http\.ev"'),
    "C11": ("every control request gets exactly one, truthful reply", r'"k":"ctl\.send"'),
    "C12": ("scheduled checks wait for the policy's time and minimum wait", r'"k":"tm\.fire"'),
    "C13": ("event stream is ordered, lossless and back-pressured", r'"e":"progress"|"k":"ev"'),
    "C14": ("no input can crash the updater; storage failures are harmless", r'"ans":"err"|"k":"clock"'),
    "C18": ("update-attempt bookkeeping spans attempts and reboots", r'"k":"inst\.install"'),
}

ASSUME_SM = [
    "The scripted doubles honour the documented embedder contracts (atomic storage commit, one install result per offered app).",
    "SHA-256/ECDSA are concretised with the real primitives by an independent signer; cryptographic strength is not decided.",
    "Everything TLC decides is within the stated bounds; the random direction samples beyond them.",
]


MIX = {
    # property: scenario kinds (cycled) for the random direction
    "C02": ("oneshot", "start", "history", "ping"),
    "C03": ("oneshot", "oneshot", "start", "history"),
    "C04": ("oneshot", "start", "history"),
    "C05": ("start", "start", "oneshot", "history"),
    "C06": ("retry", "oneshot", "retry", "start"),
    "C07": ("oneshot", "start", "history", "ping"),
    "C08": ("history", "history", "start", "oneshot", "ping"),
    "C09": ("history", "ping", "start", "oneshot"),
    "C10": ("oneshot", "oneshot", "start"),
    "C11": ("start", "tie", "history", "ping"),
    "C12": ("start", "ping", "history", "tie"),
    "C13": ("start", "history", "oneshot", "ping", "tie"),
    "C14": ("robust",),
    "C18": ("history", "history", "start"),
}


# design-model configurations per property: (cfg, "all" = print every behaviour | int = -simulate num, view-cfg for the
# exhaustive invariant-only run in the thorough tier or None)
DESIGN = {
    "C02": [("retry.cfg", "all"), ("reports.cfg", "all"), ("ping_cup.cfg", 400), ("ping_cup_inv.cfg", "inv")],
    "C03": [("retry.cfg", "all"), ("reports.cfg", "all")],
    "C04": [("flow.cfg", "all"), ("retry_nocup.cfg", "all"), ("sched.cfg", 150), ("history.cfg", 150)],
    "C05": [("flow.cfg", "all"), ("sched.cfg", 250)],
    "C06": [("retry.cfg", "all"), ("retry_nocup.cfg", "all")],
    "C07": [("retry.cfg", "all"), ("reports.cfg", "all"), ("sched.cfg", 150), ("history.cfg", 200), ("ping_cup_inv.cfg", "inv")],
    "C08": [("retry_nocup.cfg", "all"), ("sched.cfg", 250), ("history.cfg", 400), ("clock.cfg", 200)],
    "C09": [("flow.cfg", "all"), ("sched.cfg", 250), ("history.cfg", 400)],
    "C10": [("flow.cfg", "all"), ("reports.cfg", "all")],
    "C11": [("sched.cfg", 400), ("history.cfg", 200), ("sched_inv_q.cfg", "inv"), ("live_sched.cfg", "live")],
    "C12": [("sched.cfg", 400), ("stale.cfg", 300), ("sched_inv_q.cfg", "inv"), ("abs_inv_q.cfg", "inv")],
    "C13": [("sched.cfg", 250), ("flow.cfg", "all"), ("progress.cfg", "all"), ("live_sched.cfg", "live")],
    "C14": [("flow.cfg", "all"), ("sfail.cfg", "all"), ("clock.cfg", 500), ("live_retry.cfg", "live"), ("live_sched.cfg", "live")],
    "C18": [("flow.cfg", "all"), ("sched.cfg", 250), ("history.cfg", 400), ("clock.cfg", 300)],
}
# (history_inv: 10.1 million distinct states, ~17 min on 8 workers: a crash at every operation of every behaviour, twice)
THOROUGH_INV = {"C04": ["sched_inv.cfg"], "C05": ["sched_inv.cfg"], "C07": ["sched_inv.cfg"],
                "C08": ["sched_inv.cfg", "history_inv.cfg"], "C09": ["sched_inv.cfg", "history_inv.cfg"], "C11": ["sched_inv.cfg"],
                "C12": ["sched_inv.cfg", "abs_inv.cfg"], "C13": ["sched_inv.cfg"], "C18": ["sched_inv.cfg", "history_inv.cfg"]}


def prop_cfg(cfg, pid, wd):
    """A copy of a design configuration that checks only this property's clauses."""
    text = open(os.path.join(vlib.SPEC, cfg)).read().replace("INVARIANT NoViolation", "INVARIANT Inv_" + pid)
    path = os.path.join(wd, pid + "." + cfg)
    open(path, "w").write(text)
    return path


def design_runs(pid, tier, seed, wd):
    """TLC on the design model: checks the property's clauses on every behaviour within the bounds and returns the
    complete behaviours (environment script + predicted log) for replay."""
    import replay
    stats = {"states": 0, "transitions": 0, "runs": []}
    behs = []
    viols = []
    for cfg, how in DESIGN.get(pid, []):
        if how == "live":
            # liveness under fairness, no state constraint (FairSpec; properties named in the cfg)
            rc, out, st = vlib.tlc("MCOmaha", os.path.join(vlib.SPEC, cfg), workers=8, name="design.%s.%s" % (pid, cfg), timeout=3000)
            if "emporal properties were violated" in out or rc == 13:
                i = out.find("emporal properties were violated")
                rp = vlib.write_replay(pid, "design.%s.trace.txt" % cfg, out[max(0, i - 200):][:200000])
                viols.append({"key": "%s:design-liveness:%s" % (pid, cfg), "replay": rp,
                              "what": "the design model %s violates a liveness property (TLC trace in the replay file)" % cfg})
            elif rc != 0:
                raise vlib.ToolError("TLC failed on %s: %s" % (cfg, out[-1500:]))
            stats["states"] += st.get("states", 0)
            stats["transitions"] += st.get("transitions", 0)
            stats["runs"].append({"cfg": cfg, "mode": "liveness under weak fairness", "states": st.get("states", 0), "wall_s": st.get("wall_s")})
            continue
        path = prop_cfg(cfg, pid, wd)
        if how in ("all", "inv"):
            # "inv": exhaustive, VIEW without history, no behaviours printed; -coverage: which actions were taken how often
            # (vacuity guard: an action never taken means its clauses were never exercised by this configuration)
            # (TLC's coverage bookkeeping slows these runs by a factor of 40 and more - progress.cfg did not finish in
            # 25 minutes with it: only on request, VERIF_COVERAGE=1)
            rc, out, st = vlib.tlc("MCOmaha", path, workers=8, name="design.%s.%s" % (pid, cfg), timeout=3000,
                                   extra=["-coverage", "1"] if os.environ.get("VERIF_COVERAGE") == "1" and how == "all" else None)
            acts = {}
            for m_ in re.finditer(r"<(\w+) line \d+, col \d+ to line \d+, col \d+ of module Omaha>: (\d+):(\d+)", out):
                acts[m_.group(1)] = max(acts.get(m_.group(1), 0), int(m_.group(3)))
            if acts:
                st["actions_taken"] = {k: v for k, v in sorted(acts.items()) if v > 0 and k not in ("Init", "Next")}
                st["actions_never_taken"] = sorted(k for k, v in acts.items() if v == 0 and k not in ("Init", "Next"))
        else:
            num = how * (6 if tier == "thorough" else 1)
            rc, out, st = vlib.tlc("MCOmaha", path, workers=1, name="design.%s.%s" % (pid, cfg),
                                   extra=["-simulate", "num=%d" % num, "-depth", "600", "-seed", str(seed)])
        if rc not in (0, 12):
            raise vlib.ToolError("TLC failed on %s: %s" % (cfg, out[-1500:]))
        if rc == 12 or "is violated" in out:
            i = out.find("is violated")
            rp = vlib.write_replay(pid, "design.%s.trace.txt" % cfg, out[max(0, i - 200):][:200000])
            viols.append({"key": "%s:design:%s" % (pid, cfg), "replay": rp,
                          "what": "the design model %s admits a behaviour that violates Inv_%s (TLC trace in the replay file)" % (cfg, pid)})
        n0 = len(behs)
        for b in replay.behaviours(out):
            behs.append((cfg, b))
        stats["states"] += st.get("states", 0)
        stats["transitions"] += st.get("transitions", 0)
        run_rec = {"cfg": cfg, "mode": how, "states": st.get("states", 0), "behaviours": len(behs) - n0, "wall_s": st.get("wall_s")}
        if "actions_taken" in st:
            run_rec["actions_taken"] = st["actions_taken"]
            run_rec["actions_never_taken"] = st["actions_never_taken"]
        stats["runs"].append(run_rec)
    if tier == "thorough":
        for cfg in THOROUGH_INV.get(pid, []):
            path = prop_cfg(cfg, pid, wd)
            rc, out, st = vlib.tlc("MCOmaha", path, workers=8, name="design.%s.%s" % (pid, cfg), timeout=3000)
            if rc == 12 or "is violated" in out:
                i = out.find("is violated")
                rp = vlib.write_replay(pid, "design.%s.trace.txt" % cfg, out[max(0, i - 200):][:200000])
                viols.append({"key": "%s:design:%s" % (pid, cfg), "replay": rp,
                              "what": "the design model %s admits a behaviour that violates Inv_%s" % (cfg, pid)})
            elif rc != 0:
                raise vlib.ToolError("TLC failed on %s: %s" % (cfg, out[-1500:]))
            stats["states"] += st.get("states", 0)
            stats["transitions"] += st.get("transitions", 0)
            stats["runs"].append({"cfg": cfg, "mode": "exhaustive, VIEW without history", "states": st.get("states", 0),
                                  "wall_s": st.get("wall_s")})
    return behs, stats, viols


def run_harness(scs, wd, name):
    sc_path = os.path.join(wd, name + ".scenarios.ndjson")
    with open(sc_path, "w") as f:
        for s in scs:
            f.write(json.dumps(s) + "\n")
    log_path = os.path.join(wd, name + ".log.ndjson")
    p = vlib.run_vh(["sm", sc_path, log_path], timeout=900)
    if p.returncode < 0 or p.returncode in (134, 139):
        # killed by a signal: an abort / stack overflow in the code under test does not unwind
        raise vlib.HarnessTimeout("the harness process was killed by signal (rc=%d): %s" % (p.returncode, p.stderr[-300:]))
    if p.returncode != 0:
        raise vlib.ToolError("harness failed: " + p.stderr[-2000:])
    return log_path


def gen_scenarios(pid, tier, seed, wd):
    n = {"quick": 600, "thorough": 6000}[tier]
    base_seed = seed * 1000 + int(pid[1:])
    if pid != "C14":
        return scen.batch(base_seed, n, MIX[pid])
    # C14: robustness scenarios, plus healthy scripts each followed by its storage-failure twins
    rng = random.Random(base_seed)
    out = scen.batch(base_seed, n // 2, ("robust",))
    bases = []
    for i in range(n // 30):
        b = scen.oneshot_scenario(rng, "base-%d-%d" % (base_seed, i)) if i % 2 == 0 else \
            scen.start_scenario(rng, "base-%d-%d" % (base_seed, i), rounds=2, ctl_p=0.2)
        # make sure an install is attempted: that is where the related writes are
        ids = [a["id"] for a in b["cfg"]["apps"]]
        doc = scen.rand_doc(rng, ids, offer_p=0.9, allow_unknown=False)
        b["ans"]["http.uc#1"] = scen.resp(200, body={"doc": doc})
        b["ans"]["inst.plan#1"] = {"ok": ["plan1"]}
        b["ans"]["pol.start#1"] = "ok"
        b["ans"]["inst.install#1"] = {"results": [rng.choice(["i", "i", "d", "f"]) for _ in range(scen.n_offered(doc))],
                                      "progress": [], "pmode": "seq"}
        bases.append(b)
    log0 = run_harness(bases, wd, "bases")
    counts = {}
    for first, sid, lines in vlib.split_log(log0):
        c = {}
        for l in lines:
            for k in ("st.set", "st.rm", "st.commit"):
                if '"k":"%s"' % k in l:
                    c[k] = c.get(k, 0) + 1
        counts[sid] = c
    for b in bases:
        out.append(b)
        out.extend(scen.twins_of(b, counts.get(b["id"], {}), rng, max_twins=14 if tier == "quick" else 60))
    return out


def group_twins(behs):
    """Behaviours of sfail.cfg differ in the environment script only by which storage operations fail: put each
    failure-free behaviour first and its failing twins right after it, flagged, so that the monitor compares what
    the real code does in each twin with what it did in the healthy run (Props!Transparent)."""
    out, groups, order = [], {}, []
    for cfg, b in behs:
        if cfg != "sfail.cfg":
            out.append((cfg, b))
            continue
        key = json.dumps([it for it in b["script"] if not str(it.get("key", "")).startswith("st.")], sort_keys=True)
        if key not in groups:
            groups[key] = []
            order.append(key)
        groups[key].append(b)
    for key in order:
        g = groups[key]
        base = [b for b in g if not any(str(it.get("key", "")).startswith("st.") for it in b["script"])]
        if not base:
            out.extend(("sfail.cfg", b) for b in g)
            continue
        out.append(("sfail.cfg", base[0]))
        for b in g:
            if b is not base[0]:
                out.append(("sfail.cfg", dict(b, twin=True)))
    return out


def run_sm(pid, tier, seed, replay, t0, extra_cov=None, extra_viol=0, extra_rc=0):
    import replay as rpl
    wd = vlib.workdir("sm." + pid)
    vlib.build_harness()
    behs, dstats, viols = [], {"states": 0, "transitions": 0, "runs": []}, []
    if replay:
        rp = json.load(open(replay))
        scs = [rp["scenario"]]
    else:
        behs, dstats, viols = design_runs(pid, tier, seed, wd)
        if pid == "C14":
            behs = group_twins(behs)
        scs = [rpl.to_scenario(b, "tlc-%s-%d" % (cfg.replace(".cfg", ""), i)) for i, (cfg, b) in enumerate(behs)]
        for sc, (cfg, b) in zip(scs, behs):
            if b.get("twin"):
                sc["cfg"]["twin"] = True
        scs += gen_scenarios(pid, tier, seed, wd)
    log_path = run_harness(scs, wd, "run")
    rejects, n_lines, mstats = vlib.monitor(log_path, pid)
    # map rejected lines to scenarios
    by_id = {s["id"]: s for s in scs}
    spans = list(vlib.split_log(log_path))
    nontrivial = set()
    rx = re.compile(SM_PROPS[pid][1])
    samples = []
    drift = 0
    drift_samples = []
    pred = {"tlc-%s-%d" % (cfg.replace(".cfg", ""), i): b for i, (cfg, b) in enumerate(behs)}
    rejected_ids = set()
    for first, sid, lines in spans:
        text = "".join(lines)
        if rx.search(text):
            nontrivial.add(hashlib.sha1(re.sub(r'"(tw|tm)":-?\d+', "", text).encode()).hexdigest())
            if len(samples) < 2:
                samples.append({"scenario": sid, "script": by_id.get(sid, {}).get("ans", {}),
                                "log_head": [json.loads(x) for x in lines[:4]]})
    for line_no, clauses in rejects:
        if line_no == 0:
            # a verdict about the whole log (coverage obligation), not one line
            names = sorted(set(c for p_, c in clauses if p_ == pid))
            if names:
                viols.append({"key": "%s:%s" % (pid, ",".join(names)), "replay": os.path.join(wd, "run.scenarios.ndjson"),
                              "what": "whole log: clause(s) %s" % names})
            continue
        for first, sid, lines in spans:
            if first <= line_no < first + len(lines):
                names = sorted(set(c for p_, c in clauses if p_ == pid))
                key = "%s:%s" % (pid, ",".join(names))
                bad = lines[line_no - first]
                if '"k":"panic"' in bad:
                    try:
                        pj = json.loads(bad)
                        key += "@%s:%s" % (pj.get("loc", "?"), pj.get("msg", "?"))
                    except ValueError:
                        pass
                rejected_ids.add(sid)
                rp = vlib.write_replay(pid, "%s.json" % sid, {
                    "property": pid, "clauses": names, "log_line": line_no - first + 1,
                    "scenario": by_id.get(sid), "log": [x.rstrip("\n") for x in lines[: line_no - first + 1]]})
                viols.append({"key": key, "replay": rp,
                              "what": "scenario %s: clause(s) %s rejected at log line %d: %s" % (
                                  sid, names, line_no - first + 1, lines[line_no - first].strip()[:300])})
                break
    # what the recorded logs contained (vacuity guard: a clause whose trigger never occurs decides nothing)
    import collections
    situ = collections.Counter()
    for first, sid, lines in spans:
        for x in lines:
            m = re.match(r'\{"(?:[^"]+)":', x)
            k = re.search(r'"k":"([a-z.]+)"', x)
            if not k:
                continue
            k = k.group(1)
            situ["lines:" + k] += 1
            if k.startswith("http."):
                a = re.search(r'"auth":"([a-z]+)"', x)
                c = re.search(r'"cls":"([a-z]+)"', x)
                situ["%s:%s" % (k, a.group(1) if a else (c.group(1) if c else "?"))] += 1
                if '"xra":[[' in x:
                    situ[k + ":with-x-retry-after"] += 1
                if '"etag_raw"' in x:
                    situ[k + ":raw-etag"] += 1
            elif k == "crash":
                a = re.search(r'"at":"([a-z.]+)', x)
                situ["crash-at:" + (a.group(1) if a else "?")] += 1
            elif k == "ctl.reply":
                a = re.search(r'"ans":"([a-z]+)"', x)
                situ["reply:" + (a.group(1) if a else "?")] += 1
            elif k == "ev":
                a = re.search(r'"e":"state".*"s":"([A-Za-z]+)"', x) or re.search(r'"s":"([A-Za-z]+)".*"e":"state"', x)
                if a:
                    situ["state:" + a.group(1)] += 1
            elif k in ("st.set", "st.rm", "st.commit") and '"ans":"err"' in x:
                situ["storage-failure:" + k] += 1
    # spec -> implementation: predicted log vs recorded log.  A difference the monitor does not confirm as a violation
    # of this property is model drift (reported, not an alarm): DESIGN.md section 5.
    for first, sid, lines in spans:
        if sid in pred:
            d = rpl.diff(pred[sid]["obs"], [json.loads(x) for x in lines])
            if d:
                drift += 1
                if len(drift_samples) < 3:
                    drift_samples.append({"scenario": sid, "first_difference": d})
    if drift:
        print("SPEC-DRIFT property=%s behaviours=%d of %d (the code no longer follows the design model; first: %s)" % (
            pid, drift, len(pred), json.dumps(drift_samples[0])[:400]))
    # implementation -> spec, against the design model itself: the recorded runs of the random scripts must be
    # behaviours of Omaha.tla (TraceOmaha.tla binds every environment choice to the log).  A run the model cannot
    # follow, or follows with different field values, is drift as well (reported, never a verdict).
    tv = {"validated": 0, "skipped": {}, "rejected": [], "drift": [], "runs": 0, "lines": 0, "stats": {}}
    if not replay:
        import tracecheck
        rnd = [s_ for s_ in scs if not s_["id"].startswith("tlc-")]
        try:
            tv = tracecheck.validate(rnd, log_path, wd, name="trace." + pid, prop=pid, max_runs=300 if tier == "quick" else 2500)
        except vlib.ToolError as ex:
            # the verdict does not depend on this step (it only reports drift): a run the design model cannot even
            # explore in time - e.g. a machine that hangs - must not turn the property's verdict into a tool error
            print("SPEC-DRIFT property=%s trace validation against the design model did not complete: %s" % (pid, str(ex)[:200]))
            tv["skipped"] = {"trace validation did not complete": len(rnd)}
            drift += 1
        bad = len(tv["rejected"]) + len(tv["drift"])
        if bad:
            first_bad = (tv["rejected"] + tv["drift"])[0]
            print("SPEC-DRIFT property=%s recorded-runs=%d of %d are not behaviours of the design model (first: %s)" % (
                pid, bad, tv["runs"], json.dumps(first_bad)[:400]))
            drift += bad
            drift_samples.extend((tv["rejected"] + tv["drift"])[:2])
    rc = vlib.report(pid, viols)
    cov = {
        "states": dstats["states"] + mstats.get("states", 0), "transitions": dstats["transitions"] + mstats.get("transitions", 0),
        "design_model_runs": dstats["runs"],
        "traces_validated_against_impl": len(spans),
        "behaviours_replayed_from_model": len(pred), "spec_drift": drift, "drift_samples": drift_samples,
        "recorded_runs_accepted_by_design_model": tv["validated"], "recorded_runs_offered_to_design_model": tv["runs"],
        "recorded_lines_offered_to_design_model": tv["lines"], "recorded_runs_outside_design_model": tv["skipped"],
        "trace_validation_states": tv["stats"].get("states", 0),
        "samples": samples or [{"note": "no scenario touched this property's projection"}],
        "evaluations": len(spans), "distinct_nontrivial": len(nontrivial),
        "rule": "TLC-enumerated behaviours of the design model (Omaha.tla, configurations in design_model_runs) replayed as "
                "environment scripts through the real state machine, plus seeded random scripts (answers of every embedder "
                "trait + stimuli at blocking points); every recorded log is monitored by Mon.tla, and the recorded runs of "
                "the random scripts that stay within the design model's vocabulary are validated against Omaha.tla itself "
                "(TraceOmaha.tla: environment choices bound to the log, every field of every line compared); non-trivial = the recorded "
                "log matches /%s/; distinct = distinct logs modulo clock stamps" % SM_PROPS[pid][1],
        "log_lines_monitored": n_lines, "situations_observed": dict(sorted(situ.items())),
        "checker_cmd": "tlc MCOmaha.tla (INVARIANT Inv_%s) ; tlc Mon.tla (PROP=%s) over the recorded ndjson log ; tlc TraceOmaha.tla (TRACE=recorded log)" % (pid, pid),
        "exhaustive": False,
    }
    if extra_cov:
        cov["function_part"] = extra_cov
        cov["states"] += extra_cov["states"]
        cov["transitions"] += extra_cov["transitions"]
        cov["traces_validated_against_impl"] += extra_cov["traces_validated_against_impl"]
        cov["evaluations"] += extra_cov["evaluations"]
        cov["distinct_nontrivial"] += extra_cov["distinct_nontrivial"]
    vlib.write_evidence(pid, tier, seed, "model_checking", cov, ASSUME_SM + (ASSUME_FN if extra_cov else []), t0,
                        len(viols) + extra_viol)
    return max(rc, extra_rc)


FN_PROPS = {
    "C20": {"title": "versions parse, print and order numerically", "module": "MCVersion", "cmd": "ver",
            "cfg": {"quick": ["version5.cfg"], "thorough": ["version6.cfg"]}, "prefixes": ["VEC", "CMP"],
            "extra_vectors": "ver_extra",
            "nontrivial": lambda v: v.get("v") in ("ok", "unconstrained") or "a" in v,
            "rule": "every token string over {0,1,4,9,'.','+','-',' ','a'} up to the length bound and every pair of a "
                    "boundary version set, enumerated by TLC from Version.tla with the model's verdict, canonical form and "
                    "order; non-trivial = accepted / unconstrained strings and ordering pairs"},
}

FN_PROPS["C19"] = {
    "title": "times survive persistence and compare consistently", "module": "TimeConv", "cmd": "time",
    "cfg": {"quick": ["timeconv.cfg"], "thorough": ["timeconv.cfg"]}, "prefixes": ["TV"],
    "nontrivial": lambda v: True, "tlaps": "TimeConvProof.tla",
    "rule": "every microsecond count <<anchor, offset>> with anchor in {i64::MIN, about -10^15, 0, about +1.7*10^15, i64::MAX} "
            "and offset in -3..3, every instant around them at sub-microsecond positions {0,1,500,999} ns, and every "
            "combination of wall-only / monotonic-only / complete times over a small grid with every small duration, "
            "enumerated by TLC from TimeConv.tla with the model's result; the MID anchors are concretised from VERIF_SEED"}

FN_PROPS["C13g"] = {
    "title": "generator: ordered, lossless, back-pressured, no lost wake-up", "module": "MCGenerator", "cmd": "gen",
    "cfg": {"quick": ["gen_inv.cfg", "gen_strict.cfg", "gen_lazy.cfg"], "thorough": ["gen_inv5.cfg", "gen_strict4.cfg", "gen_lazy.cfg"]},
    "prefixes": ["GEN"],
    "nontrivial": lambda v: len(v.get("prog", [])) >= 2,
    "rule": "every generator program of bounded length over {yield, self-wake, await gate 1/2, drop handle} x every consumer "
            "schedule of bounded length (strict: polls only when woken; lazy: polls and gate fires in any order), enumerated by "
            "TLC from Generator.tla with each poll's result, wake-up flag and task position; non-trivial = programs of >= 2 ops"}

FN_PROPS["C01"] = {
    "title": "CUP verification accepts exactly the authentic responses", "module": "Cup", "cmd": "cup",
    "cfg": {"quick": ["cup.cfg"], "thorough": ["cup.cfg"]}, "prefixes": ["CUP"],
    "filter": lambda v: v.get("k") in ("ex", "tok"), "extra_vectors": "cup_flips",
    "nontrivial": lambda v: True,
    "rule": "symbolic exchanges enumerated by TLC from Cup.tla: (A) every parameter of the signed digest and the signing key, "
            "(B) every composition of the digest (permutations, missing / duplicated components) and a metadata key id that "
            "differs from the id passed, (C) every signature encoding x hash field x ETag shape x wrapping, over 8 client "
            "exchanges and 8 handler configurations (latest + 0..2 historical keys), plus every ETag token string of length <= 4; "
            "each materialised with real SHA-256 / P-256 by an independent signer; plus every single-bit flip of response body, "
            "retained request, nonce, key id, DER signature, request hash and ETag text of seeded random genuine exchanges"}
FN_PROPS["C03u"] = {
    "title": "decoration of the service URL", "module": "Cup", "cmd": "cup",
    "cfg": {"quick": ["cup.cfg"], "thorough": ["cup.cfg"]}, "prefixes": ["CUP"],
    "filter": lambda v: v.get("k") in ("url", "ext"),
    "nontrivial": lambda v: True,
    "rule": "every service URL over {http, https} x {host, host:port, [v6], [v6]:port} x {no path, /, /a, /a/} x {no query, one pair, "
            "two pairs, an existing cup2key pair}, decorated with two key configurations; the result is split by an independent "
            "splitter and compared with Cup.tla's Decorate"}


FN_PROPS["C15"] = {
    "title": "requests have exactly the Omaha v3 wire shape", "module": "Wire", "cmd": "wire",
    "cfg": {"quick": ["wire3.cfg"], "thorough": ["wire4.cfg"]}, "prefixes": ["WIRE"],
    "nontrivial": lambda v: len(v.get("ops", [])) >= 2,
    "rule": "every sequence of builder operations up to the length bound over {add update check, add ping, add event e1/e2} x "
            "three app templates (two sharing an id but differing in cohort, fingerprint, user counting, extra fields) and "
            "{session id, request id}, for all 8 parameter combinations, enumerated by TLC from Wire.tla; the expected "
            "headers and JSON tree are printed by TLC's ToJson (the independent encoder); non-trivial = at least two operations"}


FN_PROPS["C16"] = {
    "title": "response parser is total and faithful", "module": "RespDoc", "cmd": "resp",
    "cfg": {"quick": ["respdoc2.cfg"], "thorough": ["respdoc2.cfg"]}, "prefixes": ["DOC"], "raw_lines": True,
    "nontrivial": lambda v: v.get("nedits", 0) >= 1,
    "rule": "three base documents and every single edit and every pair of independent edits of the full one (each required "
            "field removed / null / wrongly typed; each optional field absent / null / wrongly typed; boundary values of "
            "sizes, day counts, statuses, cohorts, empty lists; extension attributes at the four places the protocol allows), "
            "generated by TLC from RespDoc.tla with the verdict and the expected full URLs; accepted documents must decode to "
            "exactly what they say; plus a totality sweep in a child process: truncations and single-bit flips of up to 400 "
            "documents, nesting depth up to 3*10^6, 20000 random byte strings"}


FN_PROPS["C17"] = {
    "title": "mock Omaha server conforms to the client it doubles for", "module": "MockServer", "cmd": "mock",
    "cfg": {"quick": ["mock.cfg"], "thorough": ["mock.cfg"]}, "prefixes": ["MOCK"],
    "nontrivial": lambda v: True,
    "rule": "every response map over 1..3 apps (all five decisions for one and two apps), every request order, update-check "
            "and event requests, three server key sets (latest + historical) x four client key configurations (none / each id), "
            "four service URL shapes (with and without path and query), and request/reconfigure histories of length 3 over "
            "the small maps - enumerated by TLC from MockServer.tla with the expected answer and state-machine outcome; "
            "requests are built by the client library, answered by handle_request in-process, parsed and verified by the "
            "client, cross-verified against the other exchanges, and the real state machine is run against the server"}


def cup_flips(rng, tier):
    return [{"k": "flips", "i": rng.randint(0, 1 << 30), "_": "CUP"} for _ in range(4 if tier == "quick" else 50)]


ASSUME_FN = ["The TLA+ reference model is the property's definition of the right output; inputs the property does not "
             "settle are marked unconstrained in the model and only 'does not panic' is required there."]


def tlc_vectors(out, prefixes):
    res = []
    for m in re.finditer(r'^"(%s) (.*)"$' % "|".join(prefixes), out, re.M):
        v = json.loads(json.loads('"' + m.group(2) + '"'))
        v["_"] = m.group(1)
        res.append(v)
    return res


def ver_extra(rng, tier):
    """Longer strings than the exhaustive bound, with the verdict computed by... nobody: these are run for 'no panic'
    only (marked unconstrained)."""
    out = []
    toks = list("0149.+- a") + ["4294967295", "4294967296", "00000000001", "\u00e9", "\u0663"]
    for _ in range(2000 if tier == "quick" else 20000):
        n = rng.randint(7, 14)
        out.append({"s": "".join(rng.choice(toks) for _ in range(n)), "v": "unconstrained", "p": "", "np": 0, "_": "VEC"})
    return out


def run_fn(pid, tier, seed, replay, t0, as_part_of=None):
    spec = FN_PROPS[pid]
    wd = vlib.workdir("fn." + pid)
    vlib.build_harness()
    stats = {"states": 0, "transitions": 0, "runs": []}
    viols = []
    if replay:
        vecs = [json.loads(l) for l in open(replay) if l.strip()]
        vecs = [v.get("vec", v) for v in vecs]
    else:
        vecs = []
        for cfg in spec["cfg"][tier]:
            rc, out, st = vlib.tlc(spec["module"], cfg, workers=8, name="fn.%s.%s" % (pid, cfg), timeout=3000)
            if rc == 12 or "is violated" in out:
                i = out.find("is violated")
                rp = vlib.write_replay(pid, "model.%s.trace.txt" % cfg, out[max(0, i - 300):][:100000])
                viols.append({"key": "%s:model-law:%s" % (pid, cfg), "replay": rp,
                              "what": "a law of the reference model itself fails (TLC trace in the replay file)"})
            elif rc != 0:
                raise vlib.ToolError("TLC failed on %s: %s" % (cfg, out[-1500:]))
            vs = [x for x in tlc_vectors(out, spec["prefixes"]) if spec.get("filter", lambda v: True)(x)]
            vecs.extend(vs)
            stats["states"] += st.get("states", 0)
            stats["transitions"] += st.get("transitions", 0)
            stats["runs"].append({"cfg": cfg, "states": st.get("states", 0), "vectors": len(vs), "wall_s": st.get("wall_s")})
        if spec.get("extra_vectors"):
            vecs.extend(globals()[spec["extra_vectors"]](random.Random(seed * 1000 + int(pid[1:])), tier))
    proof = None
    if spec.get("tlaps") and not replay:
        # unbounded laws of the model, discharged by the TLA+ proof system
        import shutil
        import subprocess
        pd = os.path.join(wd, "tlaps")
        os.makedirs(pd, exist_ok=True)
        shutil.copy(os.path.join(vlib.SPEC, spec["tlaps"]), pd)
        pr = subprocess.run(["timeout", "600", "tlapm", "--threads", "8", spec["tlaps"]], cwd=pd, stdout=subprocess.PIPE,
                            stderr=subprocess.STDOUT, text=True)
        m = re.search(r"All (\d+) obligations? proved", pr.stdout)
        f = re.search(r"(\d+)/(\d+) obligations? failed", pr.stdout)
        if m:
            proof = {"module": spec["tlaps"], "obligations": int(m.group(1)), "discharged": int(m.group(1)), "checker_cmd": "tlapm --threads 8 " + spec["tlaps"]}
        elif f:
            proof = {"module": spec["tlaps"], "obligations": int(f.group(2)), "discharged": int(f.group(2)) - int(f.group(1))}
            rp = vlib.write_replay(pid, "tlaps.txt", pr.stdout[-20000:])
            viols.append({"key": "%s:model-proof" % pid, "replay": rp, "what": "a proof obligation of %s failed" % spec["tlaps"]})
        else:
            raise vlib.ToolError("tlapm gave no verdict: " + pr.stdout[-1500:])
    vpath = os.path.join(wd, "vectors.ndjson")
    with open(vpath, "w") as f:
        for v in vecs:
            f.write(json.dumps(v) + "\n")
    opath = os.path.join(wd, "out.ndjson")
    p = vlib.run_vh([spec["cmd"], vpath, opath])
    if p.returncode != 0:
        raise vlib.ToolError("harness failed: " + p.stderr[-2000:])
    summary = None
    for line in open(opath):
        r = json.loads(line)
        if "summary" in r:
            summary = r["summary"]
            continue
        key = "%s:%s:%s" % (pid, r["bad"], json.dumps(r["vec"], sort_keys=True)[:200])
        rp = vlib.write_replay(pid, "vec-%d.ndjson" % len(viols), json.dumps(r["vec"]) + "\n")
        viols.append({"key": key, "replay": rp, "what": "%s: input %s, implementation gave %s" % (
            r["bad"], json.dumps(r["vec"])[:300], json.dumps(r.get("got"))[:200])})
    if summary is None or summary["n"] < len(vecs):
        raise vlib.ToolError("harness did not process all vectors")
    rc = vlib.report(as_part_of or pid, viols)
    nt = set(json.dumps(v, sort_keys=True) for v in vecs if spec["nontrivial"](v))
    cov = {"states": stats["states"], "transitions": stats["transitions"], "model_runs": stats["runs"],
           "traces_validated_against_impl": len(vecs), "evaluations": len(vecs), "distinct_nontrivial": len(nt),
           "rule": spec["rule"], "samples": vecs[:3] + vecs[len(vecs) // 2: len(vecs) // 2 + 2],
           "checker_cmd": "tlc %s.tla ; vh %s" % (spec["module"], spec["cmd"]), "exhaustive": True}
    if proof:
        cov["unbounded_model_laws_proved_by_tlaps"] = proof
    if as_part_of:
        return rc, cov, len(viols)
    vlib.write_evidence(pid, tier, seed, "model_checking", cov, ASSUME_FN, t0, len(viols))
    return rc


def run(pid, tier, seed, replay, t0):
    if pid == "C13":
        # two halves: the generator (Generator.tla, direct comparison) and the flow (Omaha.tla / monitor)
        if replay and replay.endswith(".ndjson"):
            return run_fn("C13g", tier, seed, replay, t0, as_part_of="C13")[0]
        if replay:
            return run_sm(pid, tier, seed, replay, t0)
        grc, gcov, gviol = run_fn("C13g", tier, seed, None, t0, as_part_of="C13")
        return run_sm(pid, tier, seed, None, t0, extra_cov=gcov, extra_viol=gviol, extra_rc=grc)
    if pid == "C03":
        # two halves: URL decoration (Cup.tla, direct comparison) and freshness / faithfulness in the flow (monitor)
        if replay and replay.endswith(".ndjson"):
            return run_fn("C03u", tier, seed, replay, t0, as_part_of="C03")[0]
        if replay:
            return run_sm(pid, tier, seed, replay, t0)
        urc, ucov, uviol = run_fn("C03u", tier, seed, None, t0, as_part_of="C03")
        return run_sm(pid, tier, seed, None, t0, extra_cov=ucov, extra_viol=uviol, extra_rc=urc)
    if pid in SM_PROPS:
        return run_sm(pid, tier, seed, replay, t0)
    if pid in FN_PROPS:
        return run_fn(pid, tier, seed, replay, t0)
    raise vlib.ToolError("no check registered for " + pid)


NOT_YET = {}


def describe(pid):
    """Manifest entry text for a property, or None when no check exists yet."""
    if pid in SM_PROPS:
        return {
            "engine": "tlc+harness",
            "design_ref": "DESIGN.md section 6 (%s), sections 3-5" % pid,
            "technique": "explicit TLA+ design model of the update state machine (Omaha.tla) model-checked by TLC against the "
                         "property's clauses (Props.tla, invariant Inv_%s; liveness under weak fairness where the property has "
                         "an 'eventually'), bound to the code in both directions: TLC-enumerated behaviours are replayed through "
                         "the real StateMachine and the predicted log is compared field by field with the recorded one; traces "
                         "recorded from the real StateMachine under seeded random scripts are validated against the "
                         "specification (Mon.tla: clause monitor over every recorded line; TraceOmaha.tla: the recorded run must "
                         "be a behaviour of the design model)" % pid,
            "level_text": "Model-based: the property is a set of TLA+ clauses over a ghost fold of the observable event "
                          "alphabet (Props.tla), checked by TLC (1) as invariants of the design model Omaha.tla over its "
                          "bounded configurations and (2) at every line of logs recorded from the real StateMachine driven "
                          "through all eight embedder traits by scripted doubles under a manual executor (every "
                          "HTTP/policy/installer/storage/timer operation is a gate the driver opens), over the model's own "
                          "behaviours and seeded environment scripts covering the property's quantifier (%s)." % SM_PROPS[pid][0],
            "level_note": "Trusted: TLC, the harness doubles and projection (independent signer / encoder / URL splitter), "
                          "embedder contracts as documented. Bounded/sampled exploration, not a proof.",
        }
    if pid in FN_PROPS and pid not in ("C13g", "C03u"):
        return {
            "engine": "tlc+harness",
            "design_ref": "DESIGN.md section 6 (%s)" % pid,
            "technique": "TLA+ reference model of the function (transcription), enumerated exhaustively by TLC within bounds; "
                         "every enumerated input is run through the real code and compared with the model's output",
            "level_text": "Model-based: %s. The model is the property's definition of the right output; TLC also checks the "
                          "model's own laws as invariants. Every enumerated input is executed on the real implementation "
                          "and any disagreement (or panic) is a violation." % FN_PROPS[pid]["rule"],
            "level_note": "Trusted: TLC, the harness's comparison code. Exhaustive only within the stated bounds.",
        }
    return None
