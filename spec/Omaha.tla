------------------------------- MODULE Omaha -------------------------------
(***************************************************************************)
(* Design model of the omaha-client state machine.  One action per         *)
(* environment interaction (each await on an embedder trait, each event    *)
(* handed to the consumer), with the code anchor in a comment; labels are  *)
(* those of DESIGN.md Appendix A.  Every action emits the same event       *)
(* records the harness logs from the real code and advances the ghost of   *)
(* Props.tla with the same GhostStep, so                                   *)
(*   - TLC checks every clause of every property on every behaviour        *)
(*     (invariant NoViolation), and                                        *)
(*   - every complete behaviour is an environment script plus the          *)
(*     predicted log, replayed against the real code by the harness.       *)
(* Lines are `omaha-client/src/state_machine.rs`.                          *)
(***************************************************************************)
EXTENDS Props

CONSTANTS
  Mode,           \* "oneshot" | "start"
  CupOn,          \* BOOLEAN: a CUP handler is configured
  Apps0,          \* the embedder's app set: sequence of [id, ver, cohort, uc]
  SysApp,         \* system app id
  UcAnswers,      \* abstract HTTP answers for update-check attempts
  EvAnswers,      \* ... for event reports
  PingAnswers,    \* ... for pings
  PlanAnswers,    \* subset of {"ok", "err"}
  StartAnswers,   \* subset of {"ok", "deferred", "denied"}
  ResultLetters,  \* subset of {"i", "d", "f"}
  NeededAnswers, AllowedAnswers,   \* subsets of BOOLEAN
  CheckAnswers,   \* policy answers to update_check_allowed: records [d, src, dis, same]
  NextAnswers,    \* policy timings: records [kind, dt, minwait]
  BackoffDraws,   \* offsets in ms within the jitter window, e.g. {-500, 0, 499}
  ProgressSeqs,   \* set of sequences of permille values the installer reports
  MaxChecks,      \* bound on checks per behaviour
  MaxCtl,         \* bound on control requests per behaviour
  CtlSources,     \* subset of {"ondemand", "scheduledtask"}
  MaxRebootAsks,  \* bound on reboot-wait iterations
  MaxCrashes,     \* bound on process deaths per behaviour
  RestartRuns,    \* what the embedder configures on a restart: records [os, apps]
  Jumps,          \* wall-clock steps (seconds, either sign) the environment may apply while the machine is blocked
  MaxJumps,
  FailSets,       \* sets of storage operations [k, n] that fail; one is chosen per behaviour
  ProgressModes,  \* how the installer reports progress: "seq" awaits the observer after each value, "conc" does not
  MaxStale,       \* how many timers of abandoned waits the environment may fire
  Bounded,        \* TRUE: the environment's budgets bound the exploration; FALSE: a recorded trace bounds it
  Mut             \* "none" or the name of a seeded design regression (model mutants)

VARIABLES st, obs, g, script

vars == <<st, obs, g, script>>

\* the run configuration is part of the state (a trace specification takes it from the recorded run; the model
\* configurations from the constants Mode, CupOn, Apps0, SysApp)
RMode == st.run.mode
RCup == st.run.cup
RSys == st.run.sys
RKid == st.run.kid

WallOf(c) == [s |-> c.w, ns |-> 123456789]
MonoOf(c) == [s |-> c.m, ns |-> 0]
Now(c) == [w |-> Some(WallOf(c)), m |-> Some(MonoOf(c))]
Stamp(line, c) == line @@ [tw |-> c.w, tm |-> c.m]
Tick(c) == [w |-> c.w + 1, m |-> c.m + 1]
TickN(c, n) == [w |-> c.w + n, m |-> c.m + n]

\* wall-clock difference now - t as a duration record (t may carry microsecond-truncated nanoseconds)
WallSince(c, t) == LET nowNs == 123456789
                       borrow == IF nowNs < t.ns THEN 1 ELSE 0 IN
                   [s |-> c.w - t.s - borrow, ns |-> IF nowNs < t.ns THEN nowNs + 1000000000 - t.ns ELSE nowNs - t.ns]
WallNotBefore(c, t) == c.w > t.s \/ (c.w = t.s /\ 123456789 >= t.ns)
Secs(n) == [s |-> n, ns |-> 0]

RECURSIVE FoldGhost(_, _)
FoldGhost(gh, lines) == IF lines = <<>> THEN gh ELSE FoldGhost(GhostStep(gh, Head(lines)), Tail(lines))

\* all emission goes through here: history + ghost
Emit(lines) == /\ obs' = obs \o lines
               /\ g' = FoldGhost(g, lines)

(***************************************************************************)
(* Storage: pending / committed maps in the projected form of the log.     *)
(***************************************************************************)
Put(m, k, v) == [x \in (DOMAIN m) \cup {k} |-> IF x = k THEN v ELSE m[x]]
Del(m, k) == [x \in (DOMAIN m) \ {k} |-> m[x]]

\* a sequence of storage operations, each its own gated call: lines + resulting store + clock
\* The store also carries the ordinal of each kind of operation and the set of operations scripted to fail
\* (records [k, n]): a failing write / remove / commit is answered "err" and has no effect (storage.rs:27-105).
Fails(store, k) == [k |-> k, n |-> store.cnt[k] + 1] \in store.fail
Bump(store, k) == [store EXCEPT !.cnt[k] = @ + 1]
RECURSIVE StRun(_, _, _, _)
StRun(ops, store, c, acc) ==
  IF ops = <<>> THEN [lines |-> acc, store |-> store, clk |-> c]
  ELSE LET o == Head(ops)
           bad == Fails(store, o.k)
           ans == IF bad THEN "err" ELSE "ok"
           s1 == Bump(store, o.k) IN
       IF o.k = "st.set"
         THEN StRun(Tail(ops), IF bad THEN s1 ELSE [s1 EXCEPT !.pend = Put(@, o.key, o.v)], Tick(c),
                    Append(acc, Stamp([k |-> "st.set", key |-> o.key, v |-> o.v, ans |-> ans], c)))
       ELSE IF o.k = "st.rm"
         THEN StRun(Tail(ops), IF bad THEN s1 ELSE [s1 EXCEPT !.pend = Del(@, o.key)], Tick(c),
                    Append(acc, Stamp([k |-> "st.rm", key |-> o.key, ans |-> ans], c)))
       ELSE StRun(Tail(ops), IF bad THEN s1 ELSE [s1 EXCEPT !.comm = store.pend], Tick(c),
                  Append(acc, Stamp([k |-> "st.commit", snap |-> store.pend, ans |-> ans], c)))

SetOrRm(key, opt) == IF IsSome(opt) THEN [k |-> "st.set", key |-> key, v |-> opt[1]] ELSE [k |-> "st.rm", key |-> key]
TruncWall(t) == [s |-> t.s, ns |-> (t.ns \div 1000) * 1000]
\* Context::persist (update_check.rs:77-125): three keys, defaults removed
CtxOps(ctx) ==
  << SetOrRm("last_update_time", IF IsSome(ctx.lut.w) THEN Some(TruncWall(ctx.lut.w[1])) ELSE None),
     SetOrRm("server_dictated_poll_interval", IF IsSome(ctx.poll) THEN Some([s |-> ctx.poll[1], exact |-> TRUE]) ELSE None),
     SetOrRm("consecutive_failed_update_checks", IF ctx.fails > 0 THEN Some(ctx.fails) ELSE None) >>
AppOps(apps) == [i \in 1..Len(apps) |-> [k |-> "st.set", key |-> apps[i].id, v |-> [cohort |-> apps[i].cohort, uc |-> apps[i].uc]]]
Commit == <<[k |-> "st.commit"]>>

(***************************************************************************)
(* Requests.                                                               *)
(***************************************************************************)
Flags(p) == (IF p.dis THEN 1 ELSE 0) + (IF p.same THEN 1 ELSE 0)
UcPayload(apps, p) ==
  [i \in 1..Len(apps) |->
     [id |-> apps[i].id, ver |-> apps[i].ver, fp |-> "None", cohort |-> apps[i].cohort,
      uc |-> Some([dis |-> p.dis, same |-> p.same, nkeys |-> Flags(p)]),
      ping |-> Some([ad |-> apps[i].uc, rd |-> apps[i].uc]), ev |-> <<>>, extra |-> <<>>]]
PingPayload(apps) ==
  [i \in 1..Len(apps) |->
     [id |-> apps[i].id, ver |-> apps[i].ver, fp |-> "None", cohort |-> apps[i].cohort,
      uc |-> None, ping |-> Some([ad |-> apps[i].uc, rd |-> apps[i].uc]), ev |-> <<>>, extra |-> <<>>]]
EvApp(a, evs) == [id |-> a.id, ver |-> a.ver, fp |-> "None", cohort |-> a.cohort, uc |-> None, ping |-> None,
                  ev |-> evs, extra |-> <<>>]

HttpLine(kind, n, payload, p, rid, sid, nonce, ans, c) ==
  Stamp([k |-> "http." \o kind, kind |-> kind, n |-> n, method |-> "POST",
         url |-> [base_ok |-> TRUE, n_cup2key |-> IF RCup THEN 1 ELSE 0, cup_last |-> TRUE,
                  cup2key |-> IF RCup THEN Some([kid |-> RKid, nonce |-> nonce, hex64 |-> TRUE]) ELSE None],
         hdr |-> [ctype |-> "application/json", updater |-> "vupdater",
                  inter |-> IF p.src = "ondemand" THEN "fg" ELSE "bg",
                  appid |-> IF payload = <<>> THEN "None" ELSE payload[1].id],
         req |-> [proto |-> "3.0", updater |-> "vupdater", uver |-> "0.1.2.3", src |-> p.src, ismachine |-> TRUE,
                  rid |-> rid, sid |-> sid, rid_ok |-> TRUE, sid_ok |-> TRUE, os_ok |-> TRUE, apps |-> payload],
         meta |-> [present |-> RCup, body_eq |-> RCup, key_eq |-> RCup],
         ans |-> ans], c)

\* what the request step returns to its caller
ExResult(a) ==
  IF a.cls = "transport" THEN "transport"
  ELSE IF a.cls = "timeout" THEN "transport"
  ELSE IF a.cls = "user" THEN "user"
  ELSE IF RCup /\ a.auth # "genuine" /\ ~(Mut = "M05" /\ ~Is2xx(a)) THEN "cupval"
  ELSE IF ~Is2xx(a) THEN "status"
  ELSE "ok"
\* does the header step run? (:1357-1369 verify before anything is read)
HeaderRead(a) == a.cls = "resp" /\ (~RCup \/ a.auth = "genuine" \/ (Mut = "M05" /\ ~Is2xx(a)) \/ Mut = "header-before-verify")
\* what the code does with the header (:1386-1403): HeaderMap::get is the FIRST value; to_str, then u64::from_str,
\* which also accepts one leading '+'; capped at a day.  (The property leaves '+n' and disagreeing duplicates open;
\* the design model says what this implementation does with them.)
XraCode(list) ==
  IF list = <<>> THEN None
  ELSE LET bs == list[1]
           ds == IF Len(bs) >= 2 /\ bs[1] = 43 THEN Tail(bs) ELSE bs IN
       IF AllDigits(ds) /\ FitsU64(StripZeros(ds)) THEN Some(Capped(StripZeros(ds))) ELSE None
NewPoll(a, old) == IF HeaderRead(a) THEN XraCode(a.xra) ELSE old

(***************************************************************************)
(* State.                                                                  *)
(***************************************************************************)
NoAns == [cls |-> "none"]
CkInit == [params |-> NoParams, sid |-> 0, attempt |-> 1, ucAns |-> NoAns, ucRes |-> "none", doc |-> [apps |-> <<>>, daystart |-> None],
           plan |-> "none", decision |-> "none", results |-> <<>>, apps |-> <<>>, outcome |-> "none", needed |-> FALSE,
           nev |-> 0, optSrc |-> "scheduledtask", reqId |-> 0, finish |-> [w |-> 0, m |-> 0], reqStart |-> 0,
           startW |-> 0, firstSeen |-> [s |-> 0, ns |-> 0]]
InitWith(run, apps0, os0) ==
  /\ st = [pc |-> "B0", clk |-> [w |-> 0, m |-> 0], run |-> run,
           ctx |-> [poll |-> None, fails |-> 0, lut |-> EmptyLut, lct |-> EmptyLut, next |-> None],
           apps |-> apps0, store |-> [pend |-> <<>>, comm |-> <<>>, fail |-> {},
                                      cnt |-> [k \in {"st.set", "st.rm", "st.commit"} |-> 0]],
           ids |-> [rid |-> 0, sid |-> 0, nonce |-> 0, tid |-> 0, req |-> 0],
           cnt |-> [uc |-> 0, ev |-> 0, ping |-> 0, plan |-> 0, start |-> 0, install |-> 0, needed |-> 0,
                    allowed |-> 0, check |-> 0, next |-> 0, idle |-> 0, evs |-> 0],
           ck |-> CkInit, rq |-> [kind |-> "none", apps |-> <<>>, ret |-> "none", res |-> "none", ans |-> NoAns],
           nChecks |-> 0, nCtl |-> 0, nAsk |-> 0,
           wait |-> [untilTid |-> 0, forTid |-> 0, untilFired |-> FALSE, forFired |-> FALSE, rbTid |-> 0, rbFired |-> FALSE],
           ctlq |-> <<>>, inWfr |-> FALSE, respOwed |-> <<>>,
           op |-> [kind |-> "none", n |-> 0, next |-> "none", ctl |-> FALSE, jumped |-> FALSE],
           nCrash |-> 0, nJump |-> 0, nStale |-> 0, tidBase |-> 0, firedT |-> {}, os |-> os0, presets |-> apps0, startM |-> 0, wfr |-> FALSE]
  /\ obs = <<>>
  /\ g = GhostInit
  /\ script = <<>>

Init == InitWith([mode |-> Mode, cup |-> CupOn, sys |-> SysApp, kid |-> 1], Apps0, "1.0")

Ans(kind, n, a) == <<[key |-> kind, n |-> n, ans |-> a]>>
Stim(p, n, do) == <<[p |-> p, n |-> n, do |-> do]>>

RunCfgOf(os, apps) == [mode |-> RMode, cup |-> RCup, kid |-> IF RCup THEN RKid ELSE 0, apps |-> apps, sys |-> RSys, os |-> os,
                       url |-> "http://omaha.example/svc/v1", twin |-> FALSE]
RunCfg == RunCfgOf(st.os, st.presets)

(***************************************************************************)
(* B0: build + load (builder.rs:276-316); storage is empty in this model   *)
(* so the load changes nothing.  R1: validity gate (:308-317).             *)
(***************************************************************************)
RECURSIVE SetToScript(_)
SetToScript(fs) == IF fs = {} THEN <<>>
                   ELSE LET f == CHOOSE f \in fs : TRUE IN Ans(f.k, f.n, "err") \o SetToScript(fs \ {f})
B0_With(fs) ==
  /\ st.pc = "B0"
  /\ Emit(<<Stamp([k |-> "cfg", id |-> "tlc", run |-> RunCfg, store |-> <<>>], st.clk)>>)
  /\ st' = [st EXCEPT !.pc = IF RMode = "oneshot" THEN "P1" ELSE "R4", !.store.fail = fs]
  /\ script' = script \o SetToScript(fs)
B0_Start == \E fs \in FailSets : B0_With(fs)

(***************************************************************************)
(* Continuous operation: R5 next time, R6 arm, R7 select, R8 allowed.      *)
(***************************************************************************)
\* the policy's deadline is relative to now (dt) or absolute (abs: "every day at 03:00" - the same timing again and again)
TimingOf(a, c) ==
  LET tw == IF Has(a, "abs") /\ IsSome(a.abs) THEN a.abs[1] ELSE c.w + a.dt
      tm == IF Has(a, "abs") /\ IsSome(a.abs) THEN a.abs[1] ELSE c.m + a.dt IN
  [time |-> [w |-> IF a.kind \in {"wall", "both"} THEN Some([s |-> tw, ns |-> 123456789]) ELSE None,
             m |-> IF a.kind \in {"mono", "both"} THEN Some([s |-> tm, ns |-> 0]) ELSE None],
   minwait |-> IF "mwms" \in DOMAIN a /\ IsSome(a.mwms)
                 THEN Some([s |-> a.mwms[1] \div 1000, ns |-> (a.mwms[1] % 1000) * 1000000])
               ELSE IF IsSome(a.minwait) THEN Some([s |-> a.minwait[1], ns |-> 0]) ELSE None]
SchedEv(ctx, c) == Stamp([k |-> "ev", e |-> "sched", lut |-> ctx.lut, lct |-> ctx.lct, next |-> ctx.next], c)
PsOf(ctx) == [poll |-> ctx.poll, fails |-> ctx.fails]
SchedArg(ctx) == [lut |-> ctx.lut, lct |-> ctx.lct, next |-> ctx.next]

\* :263-301 update_next_update_time + make_wait_to_next_check
R5_Next(a, ret) ==
  LET c0 == st.clk
      t == TimingOf(a, c0)
      c1 == Tick(c0)
      ctx1 == [st.ctx EXCEPT !.next = Some(t)]
      n == st.cnt.next + 1
      tid0 == st.ids.tid
      arm == (IF IsSome(t.minwait)
                THEN <<Stamp([k |-> "tm.arm", tid |-> tid0 + 1, t |-> "for", d |-> t.minwait[1],
                              ms |-> t.minwait[1].s * 1000 + t.minwait[1].ns \div 1000000], c1)>>
                ELSE <<>>)
             \o <<Stamp([k |-> "tm.arm", tid |-> tid0 + (IF IsSome(t.minwait) THEN 2 ELSE 1), t |-> "until", at |-> t.time], c1)>>
  IN /\ Emit(<<Stamp([k |-> "pol.next", n |-> n, apps |-> st.apps, sched |-> SchedArg(st.ctx), ps |-> PsOf(st.ctx), ans |-> a], c0),
               SchedEv(ctx1, c1)>> \o arm)
     /\ script' = script \o Ans("pol.next", n, a)
     /\ st' = [st EXCEPT !.pc = ret, !.clk = c1, !.ctx = ctx1, !.cnt.next = n,
                         !.ids.tid = tid0 + (IF IsSome(t.minwait) THEN 2 ELSE 1),
                         !.wait.forTid = IF IsSome(t.minwait) THEN tid0 + 1 ELSE 0,
                         !.wait.untilTid = tid0 + (IF IsSome(t.minwait) THEN 2 ELSE 1),
                         !.wait.untilFired = FALSE, !.wait.forFired = FALSE]

R5 == st.pc = "R5" /\ \E a \in NextAnswers : R5_Next(a, "R7")

WaitDone(w) == (w.untilFired /\ (w.forTid = 0 \/ w.forFired)) \/ (Mut = "M16" /\ (w.untilFired \/ w.forFired))

\* the environment fires one armed timer of the current wait (harness-initiated)
\* The environment's stimulus budget: scenario runs deliver one stimulus at a time (nothing else ready), so that
\* every printed behaviour is reproducible; ties between ready sources are judged in the record direction.
\* (the model configurations deliver one stimulus at a time; a recorded run under a slow consumer delivers several, and
\* then the machine's select takes the ready branches in an order of its own: every order is a behaviour)
Quiet == ~Bounded \/ (st.ctlq = <<>> /\ ~WaitDone(st.wait) /\ ~st.wait.rbFired)
Budget == ~Bounded \/ IF st.pc = "R7" THEN st.nChecks < MaxChecks /\ st.cnt.check < MaxChecks + 1
          ELSE st.cnt.ping < 2 /\ st.nAsk < MaxRebootAsks
FireTimer(which) ==
  /\ \/ st.pc \in {"R7", "W3"} /\ Quiet /\ Budget
     \* the reboot-question timer stays armed while a ping is in flight: it may fire then and is seen afterwards
     \/ st.pc = "OP" /\ st.inWfr /\ which = "rb"
  /\ LET tid == IF which = "until" THEN st.wait.untilTid ELSE IF which = "for" THEN st.wait.forTid ELSE st.wait.rbTid
         fired == IF which = "until" THEN st.wait.untilFired ELSE IF which = "for" THEN st.wait.forFired ELSE st.wait.rbFired
         at == IF st.pc = "OP" THEN st.op.kind ELSE "idle"
         n == IF st.pc = "OP" THEN st.op.n ELSE st.cnt.idle + 1 IN
     /\ tid # 0 /\ ~fired
     /\ (which = "rb" => st.pc \in {"W3", "OP"})
     /\ Emit(<<Stamp([k |-> "tm.fire", tid |-> tid], st.clk)>>)
     /\ script' = script \o Stim(at, n, [s |-> "fire", sel |-> "tid", tid |-> tid])
     /\ st' = [st EXCEPT !.clk = Tick(@), !.cnt.idle = IF st.pc = "OP" THEN @ ELSE n, !.firedT = IF Bounded /\ MaxStale = 0 THEN @ ELSE @ \cup {tid},
                         !.wait.untilFired = @ \/ which = "until", !.wait.forFired = @ \/ which = "for",
                         !.wait.rbFired = @ \/ which = "rb"]

\* a timer armed for an earlier wait fires after that wait was abandoned (a request arrived first, the reboot question
\* was answered): nobody is listening any more.  Only time passes.
FireStale(tid) ==
  \* (a timer of this process that has not fired yet)
  /\ (st.pc \in {"R7", "W3", "OP"} \/ ~Bounded) /\ tid \in (st.tidBase + 1)..st.ids.tid /\ tid \notin st.firedT /\ (~Bounded \/ (st.nStale < MaxStale /\ (st.pc = "OP" \/ (Quiet /\ Budget))))
  /\ IF st.pc = "OP" THEN ~(st.op.kind = "idle" /\ tid = st.ids.tid) /\ ~(st.inWfr /\ tid = st.wait.rbTid)
     ELSE IF st.pc \in {"R7", "W3"} THEN tid \notin {st.wait.untilTid, st.wait.forTid, st.wait.rbTid}
     ELSE TRUE     \* (a recorded run under a slow consumer: the model is ahead of the moment the timer fired)
  /\ LET backoff == st.pc = "OP" /\ st.op.kind = "idle"
         at == IF st.pc = "OP" THEN st.op.kind ELSE "idle"
         n == IF st.pc = "OP" THEN st.op.n ELSE st.cnt.idle + 1 IN
     /\ Emit(<<Stamp([k |-> "tm.fire", tid |-> tid], st.clk)>>)
     /\ script' = script \o Stim(at, n, [s |-> "fire", sel |-> "tid", tid |-> tid])
     /\ st' = [st EXCEPT !.clk = Tick(@), !.nStale = @ + 1, !.firedT = IF Bounded /\ MaxStale = 0 THEN @ ELSE @ \cup {tid}, !.op.n = IF backoff THEN @ + 1 ELSE @,
                         !.cnt.idle = IF st.pc = "OP" /\ ~backoff THEN @ ELSE @ + 1]

\* the wall clock is stepped (NTP, user) while the machine is blocked in an operation or in a select; the
\* monotonic clock is not affected.  Everything that subtracts wall times must cope with a negative difference.
ClockJump(dw) ==
  /\ (~Bounded \/ st.nJump < MaxJumps)
  /\ \/ st.pc = "OP" /\ (~Bounded \/ ~st.op.jumped)
     \/ st.pc \in {"R7", "W3"} /\ RMode = "start" /\ Quiet /\ Budget
  /\ LET at == IF st.pc = "OP" THEN st.op.kind ELSE "idle"
         n == IF st.pc = "OP" THEN st.op.n ELSE st.cnt.idle + 1
         c1 == [st.clk EXCEPT !.w = @ + dw] IN
     /\ Emit(<<Stamp([k |-> "clock", dw |-> dw, dm |-> 0], c1)>>)
     /\ script' = script \o Stim(at, n, [s |-> "clock", dw |-> dw, dm |-> 0])
     /\ st' = [st EXCEPT !.clk = c1, !.nJump = @ + 1, !.op.jumped = (st.pc = "OP"),
                         !.op.n = IF st.pc = "OP" /\ st.op.kind = "idle" THEN @ + 1 ELSE @,
                         !.cnt.idle = IF st.pc = "OP" /\ st.op.kind # "idle" THEN @ ELSE @ + 1]

\* a control request arrives while the machine is blocked in a select (R7 / W3) or busy
CtlSendIdle(src) ==
  /\ st.pc \in {"R7", "W3"} /\ (~Bounded \/ st.nCtl < MaxCtl) /\ RMode = "start" /\ Quiet /\ Budget
  /\ LET id == st.ids.req + 1
         n == st.cnt.idle + 1 IN
     /\ Emit(<<Stamp([k |-> "ctl.send", req |-> id, h |-> 0, src |-> src], st.clk)>>)
     /\ script' = script \o Stim("idle", n, [s |-> "ctl", h |-> 0, src |-> src])
     /\ st' = [st EXCEPT !.ids.req = id, !.nCtl = @ + 1, !.cnt.idle = n, !.ctlq = Append(@, [req |-> id, src |-> src])]

(***************************************************************************)
(* Process death and rebirth.  The machine dies at its current await (an   *)
(* operation in flight or an idle select); uncommitted writes are lost;    *)
(* the embedder builds a new machine on the surviving storage              *)
(* (builder.rs:276-316 load, common.rs:85-123 restore rule,                *)
(* update_check.rs:42-73 context).  R3/R4: the waited-for-reboot report    *)
(* (:319-361, :516-574).                                                   *)
(***************************************************************************)
ModelLoadApp(a, store) ==
  IF a.id \in DOMAIN store
    THEN LET p == store[a.id] IN
         [a EXCEPT !.cohort = [f \in (DOMAIN p.cohort) \cup (DOMAIN a.cohort) |-> IF f \in DOMAIN a.cohort THEN a.cohort[f] ELSE p.cohort[f]],
                   !.uc = IF a.uc = None THEN p.uc ELSE a.uc]
    ELSE a
LoadCtx(store) ==
  LET t == IF "last_update_time" \in DOMAIN store THEN [w |-> Some(store["last_update_time"]), m |-> None] ELSE EmptyLut IN
  [poll |-> IF "server_dictated_poll_interval" \in DOMAIN store THEN Some(store["server_dictated_poll_interval"].s) ELSE None,
   fails |-> IF "consecutive_failed_update_checks" \in DOMAIN store THEN store["consecutive_failed_update_checks"] ELSE 0,
   lut |-> t, lct |-> t, next |-> None]
WfrOwed(store, os) == "update_finish_time" \in DOMAIN store /\ "target_version" \in DOMAIN store /\ store["target_version"] = os

\* the machine in state s dies where it stands and is rebuilt for `run`: the new state and the lines logged
CrashTo(s, run) ==
  LET at == IF s.pc = "OP" THEN s.op.kind ELSE "idle"
      comm == s.store.comm
      apps1 == [i \in 1..Len(run.apps) |-> ModelLoadApp(run.apps[i], comm)]
      gone == [i \in 1..Len(s.ctlq) |-> Stamp([k |-> "ctl.reply", req |-> s.ctlq[i].req, ans |-> "gone"], s.clk)] IN
  [lines |-> <<Stamp([k |-> "crash", at |-> at], s.clk)>> \o gone
             \o <<Stamp([k |-> "restart", run |-> [mode |-> s.run.mode, cup |-> s.run.cup, kid |-> IF s.run.cup THEN s.run.kid ELSE 0,
                                                    apps |-> run.apps, sys |-> s.run.sys, os |-> run.os,
                                                    url |-> "http://omaha.example/svc/v1", twin |-> FALSE],
                          store |-> comm], s.clk)>>,
   st |-> [s EXCEPT !.pc = "R4", !.store.pend = comm, !.ctx = LoadCtx(comm), !.apps = apps1,
                    !.ck = CkInit, !.rq = [kind |-> "none", apps |-> <<>>, ret |-> "none", res |-> "none", ans |-> NoAns],
                    !.wait = [untilTid |-> 0, forTid |-> 0, untilFired |-> FALSE, forFired |-> FALSE, rbTid |-> 0, rbFired |-> FALSE],
                    !.ctlq = <<>>, !.inWfr = FALSE, !.respOwed = <<>>, !.nAsk = 0,
                    !.op = [kind |-> "none", n |-> 0, next |-> "none", ctl |-> FALSE, jumped |-> FALSE],
                    !.cnt.idle = IF s.pc = "OP" THEN @ ELSE @ + 1,
                    !.tidBase = s.ids.tid, !.firedT = {},
                    !.nCrash = @ + 1, !.os = run.os, !.presets = run.apps, !.startM = s.clk.m,
                    !.wfr = WfrOwed(comm, run.os)]]
(***************************************************************************)
(* What survives a crash is a function of the LOG: the committed store is  *)
(* the snapshot of the last successful commit (or what the last restart    *)
(* found), every ordinal and token is the highest one logged, the time is  *)
(* the stamp of the last line.  Pseudo(pre, s) is the machine "somewhere   *)
(* inside a step" as far as a crash is concerned, given the lines `pre`    *)
(* logged so far; RecoverAgrees checks it against the real state at every  *)
(* pending operation of every behaviour, and TraceOmaha uses it for        *)
(* crashes that the recorded runs place INSIDE an atomic step of this      *)
(* model (at a storage or policy operation, or while an event is taken).   *)
(***************************************************************************)
IdxWhere(pre, P(_)) == {i \in 1..Len(pre) : P(pre[i])}
CountK(pre, k) == Cardinality(IdxWhere(pre, LAMBDA e : e.k = k))
MaxOr0(S) == IF S = {} THEN 0 ELSE CHOOSE x \in S : \A y \in S : y <= x
HttpKinds == {"http.uc", "http.ev", "http.ping"}
CommOf(pre) ==
  LET S == IdxWhere(pre, LAMBDA e : (e.k = "st.commit" /\ e.ans = "ok") \/ e.k \in {"restart", "cfg"})
      e == pre[MaxOr0(S)] IN
  IF e.k = "st.commit" THEN e.snap ELSE e.store
Pseudo(pre, s) ==
  LET last == pre[MaxOr0(IdxWhere(pre, LAMBDA e : e.k # "ctl.reply"))]   \* (replies are logged when the driver sees them)
      http == IdxWhere(pre, LAMBDA e : e.k \in HttpKinds)
      sent == IdxWhere(pre, LAMBDA e : e.k = "ctl.send")
      answered == {pre[i].req : i \in IdxWhere(pre, LAMBDA e : e.k = "ctl.reply")}
      out == SelectSeq([i \in 1..Len(pre) |-> i], LAMBDA i : i \in sent /\ pre[i].req \notin answered) IN
  [s EXCEPT !.pc = "OP", !.op.kind = last.k,
            \* (time passes when an operation completes or a timer fires: a fire is the only line followed by a tick)
            !.clk = IF last.k = "tm.fire" THEN [w |-> last.tw + 1, m |-> last.tm + 1] ELSE [w |-> last.tw, m |-> last.tm],
            !.store.comm = CommOf(SubSeq(pre, 1, MaxOr0(IdxWhere(pre, LAMBDA e : e.k # "ctl.reply")) - 1)),   \* (the last line is the operation still pending)
            !.store.cnt = [k \in {"st.set", "st.rm", "st.commit"} |-> CountK(pre, k)],
            !.cnt = [uc |-> CountK(pre, "http.uc"), ev |-> CountK(pre, "http.ev"), ping |-> CountK(pre, "http.ping"),
                     plan |-> CountK(pre, "inst.plan"), start |-> CountK(pre, "pol.start"), install |-> CountK(pre, "inst.install"),
                     needed |-> CountK(pre, "pol.rbneeded"), allowed |-> CountK(pre, "pol.rballowed"),
                     check |-> CountK(pre, "pol.check"), next |-> CountK(pre, "pol.next"), idle |-> s.cnt.idle, evs |-> s.cnt.evs],
            !.ids = [rid |-> MaxOr0({pre[i].req.rid : i \in http}), sid |-> MaxOr0({pre[i].req.sid : i \in http}),
                     nonce |-> MaxOr0({pre[i].url.cup2key[1].nonce : i \in {j \in http : IsSome(pre[j].url.cup2key)}}),
                     tid |-> MaxOr0({pre[i].tid : i \in IdxWhere(pre, LAMBDA e : e.k = "tm.arm")}),
                     req |-> MaxOr0({pre[i].req : i \in sent})],
            !.ctlq = [i \in 1..Len(out) |-> [req |-> pre[out[i]].req, src |-> pre[out[i]].src]]]
\* fields that only bound the exploration or number the driver's stimulus points do not take part
CrashCore(s) == [s EXCEPT !.cnt.idle = 0, !.cnt.evs = 0]
RecoverAgrees ==
  (st.pc = "OP" /\ RMode = "start") =>
     \A run \in RestartRuns : CrashCore(CrashTo(Pseudo(obs, st), run).st) = CrashCore(CrashTo(st, run).st)

Crash(run) ==
  /\ RMode = "start" /\ (~Bounded \/ st.nCrash < MaxCrashes)
  /\ st.pc \in {"OP", "R7", "W3"} /\ (st.pc = "OP" \/ Quiet)
  /\ LET at == IF st.pc = "OP" THEN st.op.kind ELSE "idle"
         n == IF st.pc = "OP" THEN st.op.n ELSE st.cnt.idle + 1
         r == CrashTo(st, run) IN
     /\ Emit(r.lines)
     /\ script' = script \o Stim(at, n, [s |-> "crash", run |-> [os_version |-> run.os, apps |-> run.apps]])
     /\ st' = r.st

\* top of the loop: report the waited-for-reboot duration once the clocks are consistent, then clear the record
R4_ReportWait ==
  /\ st.pc = "R4"
  /\ IF st.wfr
       THEN LET fin == st.store.pend["update_finish_time"]
                toNow == WallSince(st.clk, fin)
                d == [toNow EXCEPT !.s = @ - (st.clk.m - st.startM)]
                \* :524-566 finish time in the future, or less wall time than monotonic time since the start: try again
                can == WallNotBefore(st.clk, fin) /\ d.s >= 0
                r == StRun(<<[k |-> "st.rm", key |-> "update_finish_time"], [k |-> "st.rm", key |-> "target_version"]>> \o Commit,
                           st.store, st.clk, <<>>) IN
            IF can
              THEN /\ Emit(<<Stamp([k |-> "met", m |-> "waited", d |-> d], st.clk)>> \o r.lines)
                   /\ st' = [st EXCEPT !.pc = "R5", !.wfr = FALSE, !.store = r.store, !.clk = r.clk]
              ELSE /\ st' = [st EXCEPT !.pc = "R5"]
                   /\ UNCHANGED <<obs, g>>
       ELSE /\ st' = [st EXCEPT !.pc = "R5"]
            /\ UNCHANGED <<obs, g>>
  /\ UNCHANGED script

\* :369-374 the select of the idle loop.  With several sources ready the choice is free (select! is pseudo-random);
\* scenario runs constrain it to one ready source.
R7_TakeTimer ==
  /\ st.pc = "R7" /\ WaitDone(st.wait) /\ (st.ctlq = <<>> \/ ~Bounded)
  /\ st' = [st EXCEPT !.pc = "R8", !.ck = [CkInit EXCEPT !.optSrc = "scheduledtask", !.reqId = 0]]
  /\ UNCHANGED <<obs, g, script>>
R7_TakeCtl ==
  /\ st.pc = "R7" /\ st.ctlq # <<>>
  /\ st' = [st EXCEPT !.pc = "R8", !.ctlq = Tail(@), !.ck = [CkInit EXCEPT !.optSrc = Head(st.ctlq).src, !.reqId = Head(st.ctlq).req]]
  /\ UNCHANGED <<obs, g, script>>

\* :377-412 update_check_allowed, Throttled / Started replies
R8_Allowed(a) ==
  /\ st.pc = "R8"
  /\ LET c0 == st.clk
         n == st.cnt.check + 1
         src == IF a.src = "same" THEN st.ck.optSrc ELSE a.src
         pos == a.d \in {"ok", "okdeferred"}
         reply == IF st.ck.reqId # 0
                    THEN <<Stamp([k |-> "ctl.reply", req |-> st.ck.reqId, ans |-> IF pos THEN "started" ELSE "throttled"], Tick(c0))>>
                    ELSE <<>> IN
     \* requests still queued when the check starts are answered AlreadyRunning by the check's own select (:418-433)
     /\ LET drain == IF pos THEN [i \in 1..Len(st.ctlq) |-> Stamp([k |-> "ctl.reply", req |-> st.ctlq[i].req, ans |-> "already"], Tick(c0))]
                           ELSE <<>>
            od == pos /\ \E i \in 1..Len(st.ctlq) : st.ctlq[i].src = "ondemand" IN
        /\ Emit(<<Stamp([k |-> "pol.check", n |-> n, apps |-> st.apps, sched |-> SchedArg(st.ctx), ps |-> PsOf(st.ctx),
                         src |-> st.ck.optSrc, ans |-> a], c0)>> \o (IF pos THEN <<>> ELSE reply))
        /\ script' = script \o Ans("pol.check", n, a)
        /\ st' = [st EXCEPT !.clk = Tick(c0), !.cnt.check = n,
                            !.pc = IF pos THEN "P1" ELSE "R4",
                            !.respOwed = IF pos THEN reply \o drain ELSE <<>>,
                            !.ctlq = IF pos THEN <<>> ELSE @,
                            !.ck.optSrc = IF od THEN "ondemand" ELSE @,
                            !.ck.params = [src |-> src, dis |-> a.dis, same |-> a.same]]

(***************************************************************************)
(* The check: P1 ... P20, S3 ... S6.                                       *)
(***************************************************************************)
StateEv(s, c) == Stamp([k |-> "ev", e |-> "state", s |-> s], c)
CheckingEv(src, c) == Stamp([k |-> "ev", e |-> "state", s |-> "Checking", src |-> src], c)

\* :765-776 CheckingForUpdates, report_check_interval (lct := now), session id
P1_Checking ==
  /\ st.pc = "P1"
  /\ LET lct == st.ctx.lct
         interval ==
           IF IsSome(lct.w) /\ ~IsSome(lct.m)
             THEN (IF WallNotBefore(st.clk, lct.w[1])
                     THEN <<Stamp([k |-> "met", m |-> "interval", d |-> WallSince(st.clk, lct.w[1]), clock |-> "Wall", src |-> st.ck.params.src], st.clk)>>
                     ELSE <<>>)
           ELSE IF IsSome(lct.m)
             THEN (IF st.clk.m >= lct.m[1].s
                     THEN <<Stamp([k |-> "met", m |-> "interval", d |-> Secs(st.clk.m - lct.m[1].s), clock |-> "Monotonic", src |-> st.ck.params.src], st.clk)>>
                     ELSE <<>>)
           ELSE <<>>
     IN Emit(<<CheckingEv(st.ck.params.src, st.clk)>> \o st.respOwed \o interval)
  /\ st' = [st EXCEPT !.pc = "P4a", !.ctx.lct = Now(st.clk), !.ids.sid = @ + 1, !.ck.sid = st.ids.sid + 1,
                      !.ck.apps = st.apps, !.ck.attempt = 1, !.nChecks = @ + 1, !.respOwed = <<>>]
  /\ UNCHANGED script

\* :785 a fresh request id per attempt, then the shared request step
P4a_Build ==
  /\ st.pc = "P4a"
  /\ st' = [st EXCEPT !.pc = "O2", !.ck.reqStart = st.clk.m,
                      !.rq = [kind |-> "uc", apps |-> UcPayload(st.ck.apps, st.ck.params), ret |-> "P4b", res |-> "none", ans |-> NoAns]]
  /\ UNCHANGED <<obs, g, script>>

\* :1355 the HTTP exchange (any kind); :1357-1409 verify -> header -> status is split over O2..O5
O2_Http(a) ==
  /\ st.pc = "O2"
  /\ LET kind == st.rq.kind
         n == st.cnt[kind] + 1
         rid == IF Mut = "M42" /\ kind = "uc" /\ st.ck.attempt > 1 THEN st.ids.rid ELSE st.ids.rid + 1
         sid == IF kind = "ping" THEN st.ids.sid + 1 ELSE st.ck.sid
         p == IF kind = "ping" THEN NoParams ELSE IF kind = "ev" /\ Mut = "M32" THEN NoParams ELSE st.ck.params
         nonce == IF RCup THEN st.ids.nonce + 1 ELSE st.ids.nonce IN
     /\ Emit(<<HttpLine(kind, n, st.rq.apps, p, rid, sid, nonce, a, st.clk)>>)
     /\ script' = script \o Ans("http." \o kind, n, a)
     /\ st' = [st EXCEPT !.pc = "OP", !.op = [kind |-> "http." \o kind, n |-> n, next |-> "O4", ctl |-> FALSE, jumped |-> FALSE],
                         !.cnt[kind] = n, !.ids.rid = rid, !.ids.nonce = nonce,
                         !.ids.sid = IF kind = "ping" THEN @ + 1 ELSE @,
                         !.rq.ans = a, !.rq.res = ExResult(a)]

\* :1371-1400 X-Retry-After; a change is announced, persisted and committed before the flow continues
O4_Header ==
  /\ st.pc = "O4"
  /\ LET np == NewPoll(st.rq.ans, st.ctx.poll) IN
     IF np # st.ctx.poll
       THEN LET ctx1 == [st.ctx EXCEPT !.poll = np]
                r == StRun(CtxOps(ctx1) \o Commit, st.store, st.clk, <<>>) IN
            /\ Emit(<<Stamp([k |-> "ev", e |-> "pstate", poll |-> np, fails |-> st.ctx.fails], st.clk)>> \o r.lines)
            /\ st' = [st EXCEPT !.pc = st.rq.ret, !.ctx = ctx1, !.store = r.store, !.clk = r.clk]
       ELSE /\ st' = [st EXCEPT !.pc = st.rq.ret]
            /\ UNCHANGED <<obs, g>>
  /\ UNCHANGED script

\* :790-862 response-time metric, classification of the attempt
Exits(res) ==
  CASE res = "ok" -> TRUE
    [] res = "cupval" -> Mut # "M06" \/ st.ck.attempt >= 3
    [] res = "user" -> Mut # "M08b" \/ st.ck.attempt >= 3 \/ IsSome(st.ctx.poll)
    [] OTHER -> st.ck.attempt >= 3 \/ (IsSome(st.ctx.poll) /\ Mut # "retry-with-poll")
P4b_Classify(draw) ==
  /\ st.pc = "P4b"
  /\ LET res == st.rq.res
         okx == res = "ok"
         met == Stamp([k |-> "met", m |-> "resp_time", ok |-> okx, d |-> Secs(st.clk.m - st.ck.reqStart)], st.clk) IN
     IF Exits(res)
       THEN /\ Emit(<<met>> \o (IF okx THEN <<>> ELSE <<StateEv("Error", st.clk)>>)
                    \o <<Stamp([k |-> "met", m |-> "rpc", count |-> st.ck.attempt, ok |-> okx], st.clk)>>)
            /\ st' = [st EXCEPT !.pc = IF okx THEN "P6" ELSE "S4", !.ck.ucAns = st.rq.ans, !.ck.ucRes = res,
                                !.ck.outcome = IF okx THEN "none" ELSE res]
            /\ UNCHANGED script
       ELSE \* :864-873 randomised exponential back-off, then the next attempt
            LET base == IF st.ck.attempt = 1 THEN 1000 ELSE 2000
                ms == base + draw
                tid == st.ids.tid + 1 IN
            /\ Emit(<<met, Stamp([k |-> "tm.arm", tid |-> tid, t |-> "for", ms |-> ms,
                                   d |-> [s |-> ms \div 1000, ns |-> (ms % 1000) * 1000000]], st.clk)>>)
            \* the back-off wait is a blocking point with no operation pending: it counts as an idle point, at which
            \* control requests (answered AlreadyRunning by the check's select), clock steps and crashes may arrive
            /\ st' = [st EXCEPT !.pc = "OP", !.ids.tid = tid, !.cnt.idle = @ + 1,
                                !.op = [kind |-> "idle", n |-> st.cnt.idle + 1, next |-> "P4a", ctl |-> FALSE, jumped |-> FALSE]]
            /\ UNCHANGED script
\* the back-off timer fires (the driver fires it as soon as nothing else is scripted for this point)
P4w_BackoffDone ==
  /\ st.pc = "OP" /\ st.op.kind = "idle"
  /\ Emit(<<Stamp([k |-> "tm.fire", tid |-> st.ids.tid], st.clk)>>)
  /\ st' = [st EXCEPT !.pc = "P4a", !.clk = Tick(@), !.ck.attempt = @ + 1, !.firedT = IF Bounded /\ MaxStale = 0 THEN @ ELSE @ \cup {st.ids.tid}]
  /\ UNCHANGED script

BodyDoc(a) == Has(a.body, "doc")

\* :883-931 parse, OmahaServerResponse, offered apps
ReportApps(apps, doc) == SelectSeq(apps, LAMBDA a : \E i \in 1..Len(doc.apps) : doc.apps[i].id = a.id /\ IsOffered(doc.apps[i]))
\* next_versions is a map id -> version: the last offered entry with that id wins
NextVer(doc, id) == LET S == {i \in 1..Len(doc.apps) : doc.apps[i].id = id /\ IsOffered(doc.apps[i])} IN
                    doc.apps[CHOOSE i \in S : \A j \in S : j <= i].uc[1].ver
TemplateApps(apps, doc, t, r, e) ==
  LET ra == ReportApps(apps, doc) IN
  [i \in 1..Len(ra) |-> EvApp(ra[i], <<Ev(t, r, e, ra[i].ver, NextVer(doc, ra[i].id), FALSE)>>)]

RespEv(doc, c) ==
  Stamp([k |-> "ev", e |-> "resp", days |-> DocDays(doc),
         apps |-> [i \in 1..Len(doc.apps) |->
                     [id |-> doc.apps[i].id, status |-> doc.apps[i].status, cohort |-> doc.apps[i].cohort,
                      uc |-> IF IsSome(doc.apps[i].uc) THEN doc.apps[i].uc[1].status ELSE "None",
                      ver |-> IF IsSome(doc.apps[i].uc) THEN doc.apps[i].uc[1].ver ELSE "None"]]], c)

StartReport(payload, ret) ==
  [st EXCEPT !.pc = "O2", !.rq = [kind |-> "ev", apps |-> payload, ret |-> ret, res |-> "none", ans |-> NoAns]]

P6_Parse ==
  /\ st.pc = "P6"
  /\ LET a == st.ck.ucAns IN
     IF ~BodyDoc(a)
       THEN \* unparseable: Error, report ParseResponse for ALL apps (:888-898)
            /\ Emit(<<StateEv("Error", st.clk)>>)
            /\ st' = [StartReport([i \in 1..Len(st.ck.apps) |->
                                     EvApp(st.ck.apps[i], <<Ev(3, 0, Some(0), st.ck.apps[i].ver, "None", FALSE)>>)], "P6r")
                        EXCEPT !.ck.outcome = "parse"]
       ELSE LET doc == a.body.doc IN
            IF Offered(doc) = <<>>
              THEN /\ Emit(<<RespEv(doc, st.clk), StateEv("NoUpdate", st.clk)>>)
                   /\ st' = [st EXCEPT !.pc = "S3", !.ck.doc = doc, !.ck.outcome = "noupdate"]
              ELSE /\ Emit(<<RespEv(doc, st.clk)>>)
                   /\ st' = [st EXCEPT !.pc = "P9", !.ck.doc = doc]
  /\ UNCHANGED script

\* a report came back: failed delivery is one lost-event metric per event (:1128-1136, :1265-1271)
LostLines(n, c) == [i \in 1..n |-> Stamp([k |-> "met", m |-> "lost", ev |-> [x |-> 0]], c)]
AfterReport(nEvents, next) ==
  /\ Emit(IF st.rq.res = "ok" THEN <<>> ELSE LostLines(nEvents, st.clk))
  /\ st' = [st EXCEPT !.pc = next]
  /\ UNCHANGED script
P6r == st.pc = "P6r" /\ AfterReport(1, "S4")

\* :943-971 install plan
\* a is "err" or the id of the plan ("ok" stands for "plan1")
PlanId(a) == IF a = "ok" THEN "plan1" ELSE a
P9_Plan(a) ==
  /\ st.pc = "P9"
  /\ LET n == st.cnt.plan + 1
         line == Stamp([k |-> "inst.plan", n |-> n, params |-> [src |-> st.ck.params.src, dis |-> st.ck.params.dis, same |-> st.ck.params.same, proxy |-> TRUE],
                        meta |-> RCup, meta_eq |-> TRUE, wire_eq |-> TRUE, bytes_eq |-> TRUE, sig |-> RCup, sig_eq |-> TRUE,
                        n_offered |-> Len(Offered(st.ck.doc)),
                        ans |-> [ok |-> IF a # "err" THEN Some(PlanId(a)) ELSE None]], st.clk) IN
     /\ script' = script \o Ans("inst.plan", n, [ok |-> IF a # "err" THEN Some(PlanId(a)) ELSE None])
     /\ IF a # "err"
          THEN /\ Emit(<<line>>)
               /\ st' = [st EXCEPT !.pc = "OP", !.op = [kind |-> "inst.plan", n |-> n, next |-> "P10", ctl |-> FALSE, jumped |-> FALSE],
                                   !.cnt.plan = n, !.ck.plan = PlanId(a)]
          ELSE /\ Emit(<<line>>)
               /\ st' = [st EXCEPT !.pc = "OP", !.op = [kind |-> "inst.plan", n |-> n, next |-> "P9e", ctl |-> FALSE, jumped |-> FALSE],
                                   !.cnt.plan = n, !.ck.plan = "err", !.ck.outcome = "plan"]
P9e_PlanFailed ==
  /\ st.pc = "P9e"
  /\ Emit(<<StateEv("Installing", st.clk), StateEv("InstallationError", st.clk)>>)
  /\ st' = StartReport(TemplateApps(st.ck.apps, st.ck.doc, 3, 0, Some(1)), "P9r")
  /\ UNCHANGED script
P9r == st.pc = "P9r" /\ AfterReport(1, "S4")

\* :974-1024 update_can_start
P10_CanStart(a) ==
  /\ st.pc = "P10"
  /\ LET n == st.cnt.start + 1
         line == Stamp([k |-> "pol.start", n |-> n, plan |-> st.ck.plan, ans |-> a], st.clk) IN
     /\ Emit(<<line>>)
     /\ script' = script \o Ans("pol.start", n, a)
     /\ st' = [st EXCEPT !.pc = "OP", !.op = [kind |-> "pol.start", n |-> n, next |-> IF a = "ok" THEN "P11" ELSE "P10d", ctl |-> FALSE, jumped |-> FALSE],
                         !.cnt.start = n, !.ck.decision = a,
                         !.ck.outcome = IF a = "ok" THEN @ ELSE a]
P10d_NotNow ==
  /\ st.pc = "P10d"
  /\ st' = IF st.ck.decision = "deferred"
             THEN StartReport(TemplateApps(st.ck.apps, st.ck.doc, 3, 9, None), "P10r")
             ELSE StartReport(TemplateApps(st.ck.apps, st.ck.doc, 3, 0, Some(3)), "P10r")
  /\ UNCHANGED <<obs, g, script>>
P10r ==
  /\ st.pc = "P10r"
  /\ Emit((IF st.rq.res = "ok" THEN <<>> ELSE LostLines(1, st.clk))
          \o (IF st.ck.decision = "deferred" \/ Mut = "M40" THEN <<StateEv("Deferred", st.clk)>> ELSE <<>>))
  /\ st' = [st EXCEPT !.pc = "S3"]
  /\ UNCHANGED script

\* :1026-1042 InstallingUpdate, download-started report, first-seen record
P11_Started ==
  /\ st.pc = "P11"
  /\ Emit(<<StateEv("Installing", st.clk)>>)
  /\ st' = StartReport(TemplateApps(st.ck.apps, st.ck.doc, 13, 1, None), "P12")
  /\ UNCHANGED script
P12_FirstSeen ==
  /\ st.pc = "P12"
  /\ LET lost == IF st.rq.res = "ok" THEN <<>> ELSE LostLines(1, st.clk)
         same == Has(st.store.pend, "install_plan_id") /\ st.store.pend["install_plan_id"] = st.ck.plan
         now == [s |-> st.clk.w, ns |-> 123456789]
         \* 1st write fails => give up (now); 2nd fails => forget the plan id (result ignored), no commit (now)
         r1 == StRun(<<[k |-> "st.set", key |-> "install_plan_id", v |-> st.ck.plan]>>, st.store, st.clk, <<>>)
         ok1 == r1.lines[1].ans = "ok"
         r2 == StRun(<<[k |-> "st.set", key |-> "update_first_seen_time", v |-> TruncWall(WallOf(st.clk))]>>, r1.store, r1.clk, r1.lines)
         ok2 == r2.lines[2].ans = "ok"
         r3 == IF ok2 THEN StRun(Commit, r2.store, r2.clk, r2.lines)
               ELSE StRun(<<[k |-> "st.rm", key |-> "install_plan_id"]>>, r2.store, r2.clk, r2.lines)
         r == IF same THEN [lines |-> <<>>, store |-> st.store, clk |-> st.clk]
              ELSE IF ~ok1 THEN r1 ELSE r3 IN
     /\ Emit(lost \o r.lines)
     /\ st' = [st EXCEPT !.pc = "P13", !.store = r.store, !.clk = r.clk, !.ck.startW = st.clk.w,
                         !.ck.firstSeen = IF same /\ Has(st.store.pend, "update_first_seen_time")
                                            THEN st.store.pend["update_first_seen_time"]
                                            ELSE now]
  /\ UNCHANGED script

\* :1044-1085 join(perform_install, yield_progress)
RECURSIVE ProgLines(_, _)
ProgLines(ps, c) == IF ps = <<>> THEN <<>>
                    ELSE <<Stamp([k |-> "inst.prog", p |-> Head(ps)], c), Stamp([k |-> "ev", e |-> "progress", p |-> Head(ps)], c),
                           Stamp([k |-> "inst.prog.ret"], c)>> \o ProgLines(Tail(ps), c)
\* an installer that reports all its values without waiting for the observer in between (join_all of the
\* receive_progress futures): the unbounded channel keeps them in order and the events follow in that order
ProgLinesConc(ps, c) == [i \in 1..Len(ps) |-> Stamp([k |-> "inst.prog", p |-> ps[i]], c)]
                        \o [i \in 1..Len(ps) |-> Stamp([k |-> "ev", e |-> "progress", p |-> ps[i]], c)]
ResultSeqs(n) == [1..n -> ResultLetters]
P13_InstallM(results, prog, pm) ==
  /\ st.pc = "P13"
  /\ LET n == st.cnt.install + 1
         a == [results |-> results, progress |-> prog, pmode |-> pm] IN
     /\ Emit(<<Stamp([k |-> "inst.begin", plan |-> st.ck.plan, obs |-> TRUE], st.clk)>>
             \o (IF pm = "conc" THEN ProgLinesConc(prog, st.clk) ELSE ProgLines(prog, st.clk))
             \o <<Stamp([k |-> "inst.install", n |-> n, plan |-> st.ck.plan, n_offered |-> Len(results), ans |-> a], st.clk)>>)
     /\ script' = script \o Ans("inst.install", n, a)
     /\ st' = [st EXCEPT !.pc = "OP", !.op = [kind |-> "inst.install", n |-> n, next |-> "P15", ctl |-> FALSE, jumped |-> FALSE],
                         !.cnt.install = n, !.ck.results = results, !.ck.finish = Tick(st.clk)]
P13_Install(results, prog) == P13_InstallM(results, prog, "seq")

\* :1087-1136 per-app events: offered entries zipped with results, known apps only, merged by id
KnownIn(apps, id) == \E i \in 1..Len(apps) : apps[i].id = id
AppOf(apps, id) == apps[CHOOSE i \in 1..Len(apps) : apps[i].id = id]
\* dl: the event carries the install duration, which exists only if the wall clock did not go back (:1075, :1117)
ResultEvent(r, prev, next, dl) ==
  CASE r = "i" -> Ev(14, 1, None, prev, next, dl)
    [] r = "d" -> Ev(3, 9, None, prev, next, dl)
    [] OTHER -> Ev(3, 0, Some(2), prev, next, dl)
RECURSIVE AddEvents(_, _, _, _, _, _)
AddEvents(acc, off, results, apps, i, dl) ==
  IF i > Len(off) \/ i > Len(results) \/ (Mut = "M47" /\ i > 1) THEN acc
  ELSE IF ~KnownIn(apps, off[i].id) THEN AddEvents(acc, off, results, apps, i + 1, dl)
  ELSE LET a == AppOf(apps, off[i].id)
           ev == ResultEvent(results[i], a.ver, off[i].uc[1].ver, dl)
           S == {j \in 1..Len(acc) : acc[j].id = a.id} IN
       IF S = {} THEN AddEvents(Append(acc, EvApp(a, <<ev>>)), off, results, apps, i + 1, dl)
       ELSE LET j == CHOOSE j \in S : TRUE IN
            AddEvents([acc EXCEPT ![j].ev = Append(@, ev)], off, results, apps, i + 1, dl)
NEvents(payload) == LET RECURSIVE Sum(_)
                        Sum(s) == IF s = <<>> THEN 0 ELSE Len(Head(s).ev) + Sum(Tail(s))
                    IN Sum(payload)
P15_AppEvents ==
  /\ st.pc = "P15"
  /\ Emit(IF st.clk.w >= st.ck.startW   \* :1074-1075 finish time read once the installer is done; start time in the future: no metric
            THEN <<Stamp([k |-> "met", m |-> IF \E i \in 1..Len(st.ck.results) : st.ck.results[i] = "f" THEN "fail_duration" ELSE "ok_duration",
                          d |-> Secs(st.clk.w - st.ck.startW)], st.clk)>>
            ELSE <<>>)
  /\ st' = [StartReport(AddEvents(<<>>, Offered(st.ck.doc), st.ck.results, st.ck.apps, 1, st.clk.w >= st.ck.startW), "P16") EXCEPT !.ck.finish = st.clk]
  /\ UNCHANGED script

\* :1141-1152 update-complete for the apps that installed
InstalledApps(off, results, apps) ==
  LET idx == SelectSeq([i \in 1..Len(off) |-> i], LAMBDA i : i <= Len(results) /\ results[i] = "i" /\ KnownIn(apps, off[i].id)) IN
  [k \in 1..Len(idx) |-> AppOf(apps, off[idx[k]].id)]
RECURSIVE DedupApps(_, _)
DedupApps(acc, xs) == IF xs = <<>> THEN acc
                      ELSE IF \E j \in 1..Len(acc) : acc[j].id = Head(xs).id
                             THEN LET j == CHOOSE j \in 1..Len(acc) : acc[j].id = Head(xs).id IN
                                  DedupApps([acc EXCEPT ![j].ev = @ \o Head(xs).ev], Tail(xs))
                             ELSE DedupApps(Append(acc, Head(xs)), Tail(xs))
P16_Complete ==
  /\ st.pc = "P16"
  /\ LET lost == IF st.rq.res = "ok" THEN <<>> ELSE LostLines(NEvents(st.rq.apps), st.clk)
         inst == InstalledApps(Offered(st.ck.doc), st.ck.results, st.ck.apps) IN
     /\ Emit(lost)
     /\ st' = IF inst # <<>>
                THEN StartReport(DedupApps(<<>>, [i \in 1..Len(inst) |->
                        EvApp(inst[i], <<Ev(3, 1, None, inst[i].ver, NextVer(st.ck.doc, inst[i].id), st.ck.finish.w >= st.ck.startW)>>)]), "P17")
                ELSE [st EXCEPT !.pc = "P18", !.rq.res = "ok"]
  /\ UNCHANGED script
P17 ==
  /\ st.pc = "P17"
  /\ Emit(IF st.rq.res = "ok" THEN <<>> ELSE LostLines(1, st.clk))
  /\ st' = [st EXCEPT !.pc = "P18"]
  /\ UNCHANGED script

\* :1154-1226 installer errors, finish time / target version, reboot_needed
Failed(results) == {i \in 1..Len(results) : results[i] = "f"}
P18_Errors ==
  /\ st.pc = "P18"
  /\ IF Failed(st.ck.results) # {}
       THEN /\ Emit([i \in 1..Cardinality(Failed(st.ck.results)) |-> Stamp([k |-> "ev", e |-> "insterr", msg |-> "x"], st.clk)]
                    \o <<StateEv("InstallationError", st.clk)>>)
            /\ st' = [st EXCEPT !.pc = "S3", !.ck.outcome = "installed", !.ck.needed = FALSE]
       ELSE LET sysOff == \E i \in 1..Len(st.ck.doc.apps) : st.ck.doc.apps[i].id = RSys /\ IsOffered(st.ck.doc.apps[i])
                anyOff == Offered(st.ck.doc)
                tv == IF Mut = "M25" THEN anyOff[1].uc[1].ver ELSE NextVer(st.ck.doc, RSys)
                ops == <<[k |-> "st.set", key |-> "update_finish_time", v |-> TruncWall(WallOf(st.ck.finish))]>>
                       \o (IF sysOff \/ Mut = "M25"
                             THEN <<[k |-> "st.set", key |-> "target_version", v |-> IF tv = "None" THEN "UNKNOWN" ELSE tv]>>
                             ELSE <<>>)
                       \o Commit
                r == StRun(ops, st.store, st.clk, <<>>)
                fs == st.ck.firstSeen
                finNs == 123456789
                borrow == IF finNs < fs.ns THEN 1 ELSE 0
                seen == IF st.ck.finish.w > fs.s \/ (st.ck.finish.w = fs.s /\ finNs >= fs.ns)   \* :1197
                          THEN <<Stamp([k |-> "met", m |-> "first_seen",
                                        d |-> [s |-> st.ck.finish.w - fs.s - borrow,
                                               ns |-> IF finNs < fs.ns THEN finNs + 1000000000 - fs.ns ELSE finNs - fs.ns]], st.clk)>>
                          ELSE <<>> IN
            /\ Emit(seen \o r.lines)
            /\ st' = [st EXCEPT !.pc = "P20", !.store = r.store, !.clk = r.clk, !.ck.outcome = "installed"]
  /\ UNCHANGED script
P20_Needed(a) ==
  /\ st.pc = "P20"
  /\ LET n == st.cnt.needed + 1 IN
     /\ Emit(<<Stamp([k |-> "pol.rbneeded", n |-> n, plan |-> st.ck.plan, ans |-> a], st.clk)>>)
     /\ script' = script \o Ans("pol.rbneeded", n, a)
     /\ st' = [st EXCEPT !.pc = "OP", !.op = [kind |-> "pol.rbneeded", n |-> n, next |-> "S3", ctl |-> FALSE, jumped |-> FALSE],
                         !.cnt.needed = n, !.ck.needed = a]

(***************************************************************************)
(* :628-702 start_update_check: outcome bookkeeping, closing events, persist.*)
(***************************************************************************)
Action(doc, i, outcome, results) ==
  LET a == doc.apps[i]
      rank == Cardinality({j \in 1..i : IsOffered(doc.apps[j])}) IN
  CASE outcome = "noupdate" -> "noupdate"
    [] outcome = "deferred" -> "deferred"
    [] outcome = "denied" -> "denied"
    [] OTHER -> IF IsOffered(a)
                  THEN (CASE results[rank] = "i" -> "updated" [] results[rank] = "d" -> "deferred" [] OTHER -> "failed")
                  ELSE "noupdate"
ResultApps(doc, outcome, results) ==
  [i \in 1..Len(doc.apps) |-> [id |-> doc.apps[i].id, action |-> Action(doc, i, outcome, results),
                               cohort |-> doc.apps[i].cohort, uc |-> DocDays(doc)]]
ModelMerge(apps, doc) ==
  \* app_set.rs:28-38, protocol.rs:62-75: first entry with the id; present fields replace; user counting := daystart
  [i \in 1..Len(apps) |->
     LET S == {j \in 1..Len(doc.apps) : doc.apps[j].id = apps[i].id} IN
     IF S = {} \/ (Mut = "M48" /\ i > 1) THEN apps[i]
     ELSE LET j == CHOOSE j \in S : \A k \in S : j <= k
              nc == doc.apps[j].cohort
              oc == apps[i].cohort IN
          [apps[i] EXCEPT !.cohort = [f \in (DOMAIN oc) \cup (DOMAIN nc) |-> IF f \in DOMAIN nc THEN nc[f] ELSE oc[f]],
                          !.uc = DocDays(doc)]]

S3_Ok ==
  /\ st.pc = "S3"
  /\ LET c == st.clk
         res == ResultApps(st.ck.doc, st.ck.outcome, st.ck.results)
         anyFailed == \E i \in 1..Len(res) : res[i].action = "failed"
         anyUpd == \E i \in 1..Len(res) : res[i].action = "updated"
         att == <<Stamp([k |-> "met", m |-> "att_check", count |-> st.ctx.fails + 1], c)>>
         fi == IF Has(st.store.pend, "consecutive_failed_install_attempts") THEN st.store.pend["consecutive_failed_install_attempts"] ELSE 0
         inst == IF anyFailed \/ anyUpd
                   THEN LET r == StRun(IF anyFailed THEN <<[k |-> "st.set", key |-> "consecutive_failed_install_attempts", v |-> fi + 1]>>
                                       ELSE <<[k |-> "st.rm", key |-> "consecutive_failed_install_attempts"]>>, st.store, c, <<>>) IN
                        [lines |-> <<Stamp([k |-> "met", m |-> "att_install", count |-> fi + 1, ok |-> ~anyFailed], c)>> \o r.lines,
                         store |-> r.store, clk |-> r.clk]
                   ELSE [lines |-> <<>>, store |-> st.store, clk |-> c]
         ctx1 == [st.ctx EXCEPT !.lut = Now(c), !.fails = 0] IN
     /\ Emit(att \o inst.lines)
     /\ st' = [st EXCEPT !.pc = "S5", !.ctx = ctx1, !.apps = ModelMerge(st.apps, st.ck.doc), !.store = inst.store, !.clk = inst.clk,
                         !.ck.outcome = "ok"]
  /\ UNCHANGED script

ReasonOf(outcome) == CASE outcome \in {"parse", "plan"} -> "Omaha"
                       [] outcome \in {"cupval", "build"} -> "Internal"
                       [] OTHER -> "Network"
ErrOf(outcome) == CASE outcome = "user" -> "transport" [] OTHER -> outcome
S4_Err ==
  /\ st.pc = "S4"
  /\ LET contact == st.ck.outcome \in {"parse", "plan"} \/ (Mut = "M11" /\ st.ck.outcome \in {"transport", "status", "user"})
         contact2 == IF Mut = "M10d" /\ st.ck.outcome = "plan" THEN FALSE ELSE contact IN
     /\ Emit(<<Stamp([k |-> "met", m |-> "fail_reason", r |-> ReasonOf(st.ck.outcome)], st.clk)>>)
     /\ st' = [st EXCEPT !.pc = "S5", !.ctx.lut = IF contact2 THEN Now(st.clk) ELSE @, !.ctx.fails = Inc(@)]
  /\ UNCHANGED script

S5_Close ==
  /\ st.pc = "S5"
  /\ LET c == st.clk
         okc == st.ck.outcome = "ok"
         result == Stamp([k |-> "ev", e |-> "result", ok |-> okc, err |-> IF okc THEN "None" ELSE ErrOf(st.ck.outcome),
                          apps |-> IF okc THEN ResultApps(st.ck.doc, IF st.ck.decision = "ok" THEN "installed"
                                                                      ELSE IF st.ck.decision \in {"deferred", "denied"} THEN st.ck.decision
                                                                      ELSE "noupdate", st.ck.results)
                                   ELSE <<>>], c)
         r == StRun(CtxOps(st.ctx) \o AppOps(st.apps) \o Commit, st.store, c, <<>>) IN
     /\ Emit(<<SchedEv(st.ctx, c), Stamp([k |-> "ev", e |-> "pstate", poll |-> st.ctx.poll, fails |-> st.ctx.fails], c), result>>
             \o r.lines)
     /\ st' = [st EXCEPT !.store = r.store, !.clk = r.clk,
                         !.pc = IF RMode = "oneshot" THEN "END"
                                ELSE IF okc /\ st.ck.decision = "ok" /\ st.ck.needed = TRUE /\ Failed(st.ck.results) = {} THEN "R11" ELSE "R12"]
  /\ UNCHANGED script

(***************************************************************************)
(* Busy select (R10): control requests that arrive during a check get      *)
(* AlreadyRunning; an on-demand one upgrades the options (:418-437).       *)
(***************************************************************************)
\* Every gated operation of a check is "called" (line logged, pc = "OP") and later "completes" (OpDone: the
\* clock ticks).  In between, the in-check select may take a control request: AlreadyRunning, and an on-demand
\* request upgrades the options.
OpDone ==
  /\ st.pc = "OP" /\ st.op.kind # "idle"
  /\ st' = [st EXCEPT !.pc = st.op.next, !.clk = Tick(@)]
  /\ UNCHANGED <<obs, g, script>>
\* (under a slow consumer the request is logged while the model has already moved on within the check: same answer)
InCheckPc == st.pc \notin {"B0", "R4", "R5", "R7", "R8", "R11", "R12", "W1", "W2", "W3", "W9", "G2", "END", "DONE"}
                /\ ~(st.pc \in {"O2", "OP", "O4"} /\ st.rq.kind = "ping")
CtlSendBusy(src) ==
  /\ (st.pc = "OP" \/ (~Bounded /\ InCheckPc)) /\ RMode = "start" /\ (~Bounded \/ st.nCtl < MaxCtl)
  /\ ~st.inWfr /\ (~Bounded \/ ~st.op.ctl)
  /\ LET id == st.ids.req + 1 IN
     /\ Emit(<<Stamp([k |-> "ctl.send", req |-> id, h |-> 0, src |-> src], st.clk),
               Stamp([k |-> "ctl.reply", req |-> id, ans |-> "already"], st.clk)>>)
     /\ script' = script \o Stim(st.op.kind, st.op.n, [s |-> "ctl", h |-> 0, src |-> src])
     \* (every stall of the back-off wait is a new idle point of the driver)
     /\ st' = [st EXCEPT !.ids.req = id, !.nCtl = @ + 1, !.op.ctl = TRUE,
                         !.op.n = IF st.op.kind = "idle" THEN @ + 1 ELSE @,
                         !.cnt.idle = IF st.op.kind = "idle" THEN @ + 1 ELSE @,
                         !.ck.optSrc = IF src = "ondemand" THEN "ondemand" ELSE @]

\* a request that arrives while a ping of the reboot wait is in flight is not heard until the ping is done (:482-486:
\* the ping is awaited inside the select's branch): it waits in the channel
CtlSendPing(src) ==
  /\ st.pc = "OP" /\ st.inWfr /\ RMode = "start" /\ (~Bounded \/ (st.nCtl < MaxCtl /\ ~st.op.ctl))
  /\ LET id == st.ids.req + 1 IN
     /\ Emit(<<Stamp([k |-> "ctl.send", req |-> id, h |-> 0, src |-> src], st.clk)>>)
     /\ script' = script \o Stim(st.op.kind, st.op.n, [s |-> "ctl", h |-> 0, src |-> src])
     /\ st' = [st EXCEPT !.ids.req = id, !.nCtl = @ + 1, !.op.ctl = TRUE, !.ctlq = Append(@, [req |-> id, src |-> src])]

(***************************************************************************)
(* R11 / W*: waiting for reboot (:439-510).  R12: Idle.                    *)
(***************************************************************************)
R11_Wfr ==
  /\ st.pc = "R11"
  /\ Emit(<<StateEv("WaitingForReboot", st.clk)>>)
  /\ st' = [st EXCEPT !.pc = "W1", !.inWfr = TRUE, !.nAsk = 0, !.wait.rbTid = 0, !.wait.rbFired = FALSE]
  /\ UNCHANGED script
AskLine(a, c, n) == Stamp([k |-> "pol.rballowed", n |-> n, src |-> st.ck.optSrc, ans |-> a], c)
W1_Ask(a) ==
  /\ st.pc = "W1"
  /\ LET n == st.cnt.allowed + 1 IN
     /\ script' = script \o Ans("pol.rballowed", n, a)
     /\ IF a
          THEN /\ Emit(<<AskLine(a, st.clk, n)>>)
               /\ st' = [st EXCEPT !.pc = "W9", !.clk = Tick(@), !.cnt.allowed = n]
          ELSE \* :461-467 30-minute timer, then the ping wait
               LET tid == st.ids.tid + 1 IN
               /\ Emit(<<AskLine(a, st.clk, n),
                         Stamp([k |-> "tm.arm", tid |-> tid, t |-> "for", d |-> [s |-> 1800, ns |-> 0], ms |-> 1800000], Tick(st.clk))>>)
               /\ st' = [st EXCEPT !.pc = "W2", !.clk = Tick(@), !.cnt.allowed = n, !.ids.tid = tid, !.wait.rbTid = tid, !.wait.rbFired = FALSE]
W2 == st.pc = "W2" /\ \E a \in NextAnswers : R5_Next(a, "W3")
\* :473-503 the three-way select
W3_RebootTimer(a) ==
  /\ st.pc = "W3" /\ st.wait.rbFired
  /\ LET n == st.cnt.allowed + 1
         tid == st.ids.tid + 1 IN
     /\ script' = script \o Ans("pol.rballowed", n, a)
     /\ IF a
          THEN /\ Emit(<<AskLine(a, st.clk, n)>>)
               /\ st' = [st EXCEPT !.pc = "W9", !.clk = Tick(@), !.cnt.allowed = n, !.nAsk = @ + 1]
          ELSE /\ Emit(<<AskLine(a, st.clk, n),
                         Stamp([k |-> "tm.arm", tid |-> tid, t |-> "for", d |-> [s |-> 1800, ns |-> 0], ms |-> 1800000], Tick(st.clk))>>)
               /\ st' = [st EXCEPT !.clk = Tick(@), !.cnt.allowed = n, !.ids.tid = tid, !.wait.rbTid = tid, !.wait.rbFired = FALSE, !.nAsk = @ + 1]
W3_PingTimer ==
  /\ st.pc = "W3" /\ WaitDone(st.wait) /\ (~Bounded \/ (~st.wait.rbFired /\ st.ctlq = <<>>))
  /\ st' = [st EXCEPT !.pc = "O2", !.wait.untilFired = FALSE, !.wait.forFired = FALSE, !.wait.untilTid = 0, !.wait.forTid = 0,
                      !.rq = [kind |-> "ping", apps |-> PingPayload(st.apps), ret |-> "G2", res |-> "none", ans |-> NoAns]]
  /\ UNCHANGED <<obs, g, script>>
\* :1292-1327 ping outcome
G2_PingDone ==
  /\ st.pc = "G2"
  /\ LET a == st.rq.ans
         okp == st.rq.res = "ok" /\ BodyDoc(a)
         ctx1 == IF okp THEN [st.ctx EXCEPT !.fails = 0, !.lut = Now(st.clk)] ELSE [st.ctx EXCEPT !.fails = Inc(@)]
         apps1 == IF okp /\ Mut # "M13" THEN ModelMerge(st.apps, a.body.doc) ELSE st.apps
         r == StRun(CtxOps(ctx1) \o AppOps(apps1) \o Commit, st.store, st.clk, <<>>) IN
     /\ Emit((IF okp THEN <<SchedEv(ctx1, st.clk)>> ELSE <<>>) \o r.lines)
     /\ st' = [st EXCEPT !.pc = "W2", !.ctx = ctx1, !.apps = apps1, !.store = r.store, !.clk = r.clk]
  /\ UNCHANGED script
W3_Ctl(a) ==
  /\ st.pc = "W3" /\ st.ctlq # <<>>
  /\ LET rq == Head(st.ctlq)
         od == rq.src = "ondemand" \/ Mut = "M15"
         n == st.cnt.allowed + 1
         reply == Stamp([k |-> "ctl.reply", req |-> rq.req, ans |-> "already"], Tick(st.clk)) IN
     IF od
       \* (:484-489 the request is answered AlreadyRunning first, then the policy is asked; the driver sees the reply
       \* only once the machine blocks, so it is logged after the question: `early` records the causal order)
       THEN /\ Emit(<<Stamp([k |-> "pol.rballowed", n |-> n, src |-> "ondemand", ans |-> a], st.clk), reply @@ [early |-> TRUE]>>)
            /\ script' = script \o Ans("pol.rballowed", n, a)
            /\ st' = [st EXCEPT !.ctlq = Tail(@), !.ck.optSrc = "ondemand", !.clk = Tick(@), !.cnt.allowed = n,
                                !.pc = IF a THEN "W9" ELSE "W3"]
       ELSE /\ Emit(<<Stamp([k |-> "ctl.reply", req |-> rq.req, ans |-> "already"], st.clk)>>)
            /\ st' = [st EXCEPT !.ctlq = Tail(@)]
            /\ UNCHANGED script
W9_Reboot ==
  /\ st.pc = "W9"
  /\ Emit(<<Stamp([k |-> "inst.reboot", n |-> 1, ans |-> "ok"], st.clk)>>)
  /\ st' = [st EXCEPT !.pc = "R12", !.clk = Tick(@)]
  /\ UNCHANGED script
R12_Idle ==
  /\ st.pc = "R12"
  /\ Emit(<<StateEv("Idle", st.clk)>>)
  /\ st' = [st EXCEPT !.pc = "R4", !.inWfr = FALSE, !.wait = [untilTid |-> 0, forTid |-> 0, untilFired |-> FALSE, forFired |-> FALSE, rbTid |-> 0, rbFired |-> FALSE]]
  /\ UNCHANGED script

(***************************************************************************)
(* End of a behaviour.                                                     *)
(***************************************************************************)
EndOneShot ==
  /\ st.pc = "END"
  /\ Emit(<<Stamp([k |-> "ev.end"], st.clk), Stamp([k |-> "end"], st.clk)>>)
  /\ st' = [st EXCEPT !.pc = "DONE"]
  /\ UNCHANGED script
\* continuous mode: the scenario is cut when the budget of checks is used up or the machine idles with nothing to do
EndStart ==
  /\ RMode = "start" /\ st.pc \in {"R7", "W3"} /\ Quiet
  /\ Emit(<<Stamp([k |-> "end"], st.clk)>>)
  /\ st' = [st EXCEPT !.pc = "DONE"]
  /\ UNCHANGED script

Next ==
  \/ B0_Start
  \/ R4_ReportWait
  \/ \E run \in RestartRuns : Crash(run)
  \/ \E dw \in Jumps : ClockJump(dw)
  \/ R5
  \/ \E w \in {"until", "for", "rb"} : FireTimer(w)
  \/ \E tid \in 1..st.ids.tid : FireStale(tid)
  \/ \E s \in CtlSources : CtlSendIdle(s)
  \/ R7_TakeTimer \/ R7_TakeCtl
  \/ \E a \in CheckAnswers : R8_Allowed(a)
  \/ P1_Checking \/ P4a_Build
  \/ (st.pc = "O2" /\ \E a \in (CASE st.rq.kind = "uc" -> UcAnswers [] st.rq.kind = "ev" -> EvAnswers [] OTHER -> PingAnswers) : O2_Http(a))
  \/ O4_Header
  \/ \E d \in BackoffDraws : P4b_Classify(d)
  \/ P4w_BackoffDone
  \/ P6_Parse \/ P6r
  \/ \E a \in PlanAnswers : P9_Plan(a)
  \/ P9r \/ P9e_PlanFailed \/ OpDone
  \/ \E s \in CtlSources : CtlSendBusy(s)
  \/ \E s \in CtlSources : CtlSendPing(s)
  \/ \E a \in StartAnswers : P10_CanStart(a)
  \/ P10r \/ P10d_NotNow \/ P11_Started \/ P12_FirstSeen
  \/ (st.pc = "P13" /\ \E r \in ResultSeqs(Len(Offered(st.ck.doc))) : \E p \in ProgressSeqs : \E pm \in ProgressModes : P13_InstallM(r, p, pm))
  \/ P15_AppEvents \/ P16_Complete \/ P17 \/ P18_Errors
  \/ \E a \in NeededAnswers : P20_Needed(a)
  \/ S3_Ok \/ S4_Err \/ S5_Close
  \/ R11_Wfr
  \/ \E a \in AllowedAnswers : W1_Ask(a)
  \/ W2
  \/ \E a \in AllowedAnswers : W3_RebootTimer(a)
  \/ W3_PingTimer \/ G2_PingDone
  \/ \E a \in AllowedAnswers : W3_Ctl(a)
  \/ W9_Reboot \/ R12_Idle
  \/ EndOneShot \/ EndStart

Spec == Init /\ [][Next]_vars

(***************************************************************************)
(* Properties.                                                             *)
(***************************************************************************)
NoViolation == g.viol = {}
Done == st.pc = "DONE"

(***************************************************************************)
(* Liveness, checked without a state constraint under weak fairness of the *)
(* machine and of the completion of every awaited operation (the           *)
(* environment's budgets make every behaviour finite, so these say: no     *)
(* behaviour gets stuck before ...).                                       *)
(***************************************************************************)
FairSpec == Spec /\ WF_vars(Next)
\* C14: every started check delivers its result
CheckEnds == InCheckPc ~> (g.c.nResult >= 1 \/ st.nCrash > 0)
ResultDelivered == [](InCheckPc => <>(~InCheckPc))
\* C11: every control request is eventually answered
RequestsAnswered == (g.ctlOut # {}) ~> (g.ctlOut = {})
\* C13 / C14: the flow never deadlocks short of the end of the behaviour
Terminates == <>(st.pc = "DONE")
=============================================================================
