SPECIFICATION Spec
CONSTANTS
  Tokens <- MCTokens
  MaxLen = 6
  Comps <- MCComps
INVARIANT Laws
INVARIANT Emit
CHECK_DEADLOCK FALSE
