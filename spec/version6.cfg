SPECIFICATION Spec
CONSTANTS
  Tokens <- MCTokens
  MaxLen = 6
  Comps <- MCComps
  Pool <- MCPool
INVARIANT Laws
INVARIANT Emit
CHECK_DEADLOCK FALSE
