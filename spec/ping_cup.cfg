SPECIFICATION Spec
CONSTANTS
  Mode = "start"
  CupOn = TRUE
  Apps0 <- MCApps1
  SysApp = "a"
  UcAnswers <- MCUcInstallCup
  EvAnswers <- MCEvCup
  PingAnswers <- MCPingCup
  PlanAnswers = {"ok"}
  StartAnswers = {"ok"}
  ResultLetters = {"i"}
  NeededAnswers = {TRUE}
  AllowedAnswers = {FALSE}
  CheckAnswers <- MCCheckOkOnly
  NextAnswers <- MCNext1
  BackoffDraws = {0}
  ProgressSeqs <- MCProg0
  MaxChecks = 1
  MaxCtl = 0
  CtlSources <- MCSrcBoth
  MaxRebootAsks = 2
  MaxCrashes = 1
  RestartRuns <- MCRestarts
  FailSets <- MCFailNone
  Jumps <- MCJumpNone
  MaxJumps = 0
  ProgressModes = {"seq"}
  MaxStale = 0
  Bounded = TRUE
  Mut = "none"
INVARIANT NoViolation
INVARIANT RecoverAgrees
INVARIANT PrintDone
CHECK_DEADLOCK FALSE
