SPECIFICATION Spec
CONSTANT Pairs = FALSE
INVARIANT Laws
INVARIANT Emit
CHECK_DEADLOCK FALSE
