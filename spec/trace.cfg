SPECIFICATION TSpec
CONSTANTS
  Mode = "start"
  CupOn = FALSE
  Apps0 <- MCApps1
  SysApp = "a"
  UcAnswers <- MCNoSrc
  EvAnswers <- MCNoSrc
  PingAnswers <- MCNoSrc
  PlanAnswers = {}
  StartAnswers = {}
  ResultLetters = {}
  NeededAnswers = {}
  AllowedAnswers = {}
  CheckAnswers <- MCNoSrc
  NextAnswers <- MCNoSrc
  BackoffDraws = {0}
  ProgressSeqs <- MCProg0
  MaxChecks = 0
  MaxCtl = 0
  CtlSources <- MCNoSrc
  MaxRebootAsks = 0
  MaxCrashes = 0
  RestartRuns <- MCRestartNone
  FailSets <- MCFailNone
  Jumps <- MCJumpNone
  MaxJumps = 0
  ProgressModes = {"seq"}
  MaxStale = 0
  Bounded = FALSE
  Mut = "none"
INVARIANT TraceProgress
INVARIANT TraceDone
INVARIANT NoViolation
CHECK_DEADLOCK FALSE
