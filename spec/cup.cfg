SPECIFICATION Spec
INVARIANT Sound
INVARIANT UrlLaw
INVARIANT Emit
CHECK_DEADLOCK FALSE
