-------------------------------- MODULE Mon --------------------------------
(***************************************************************************)
(* Monitor: reads an ndjson log recorded from the real code (IOEnv.TRACE), *)
(* advances the ghost of Props.tla with the same GhostStep the design      *)
(* model uses, and reports every clause that becomes violated, with the    *)
(* line at which it did.  One state per consumed line; accepted iff the    *)
(* whole log was consumed (post-condition).  IOEnv.PROP selects the        *)
(* property whose clauses are reported ("ALL" for every property).         *)
(***************************************************************************)
EXTENDS Props, Json, IOUtils

Rec == ndJsonDeserialize(IOEnv.TRACE)
Prop == IOEnv.PROP

VARIABLES l, g

\* C06 (jitter): over all back-off waits of the log, both halves of each window must occur.
\* TLC registers 11..14 count <window k, half h> as 9 + 2k + h.
JitReg(k, h) == 9 + 2 * k + h
MonInit == /\ l = 1 /\ g = GhostInit
           /\ \A i \in 11..14 : TLCSet(i, 0)

NoteJitter(e) ==
  IF e.k = "tm.arm" /\ g.c.inCheck /\ e.t = "for" /\ Len(g.c.ucs) \in {1, 2}
    THEN LET k == Len(g.c.ucs)
             h == IF e.ms < (IF k = 1 THEN 1000 ELSE 2000) THEN 0 ELSE 1
         IN TLCSet(JitReg(k, h), TLCGet(JitReg(k, h)) + 1)
    ELSE TRUE

MonNext ==
  /\ l <= Len(Rec)
  /\ LET e == Rec[l]
         g2 == GhostStep(g, e)
         newv == {v \in g2.viol \ g.viol : Prop = "ALL" \/ v[1] = Prop}
     IN /\ NoteJitter(e)
        /\ (newv # {} => PrintT("MONITOR-REJECT " \o ToString(l) \o " " \o ToString(newv)))
        /\ g' = g2
  /\ l' = l + 1

MonSpec == MonInit /\ [][MonNext]_<<l, g>>

Consumed ==
  LET n == TLCGet("stats").diameter - 1 IN
  /\ PrintT("MONITOR-DONE " \o ToString(n) \o " " \o ToString(Len(Rec)))
  /\ n = Len(Rec)
  /\ \A k \in {1, 2} :
       LET lo == TLCGet(JitReg(k, 0))
           hi == TLCGet(JitReg(k, 1)) IN
       /\ PrintT("MONITOR-JITTER " \o ToString(k) \o " " \o ToString(lo) \o " " \o ToString(hi))
       /\ (lo + hi >= 64 /\ (lo = 0 \/ hi = 0) /\ Prop \in {"ALL", "C06"}
             => PrintT("MONITOR-REJECT 0 {<<\"C06\", \"backoff-not-randomised\">>}"))
=============================================================================
