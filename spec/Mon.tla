-------------------------------- MODULE Mon --------------------------------
(***************************************************************************)
(* Monitor: reads an ndjson log recorded from the real code (IOEnv.TRACE), *)
(* advances the ghost of Props.tla with the same GhostStep the design      *)
(* model uses, and reports every clause that becomes violated, with the    *)
(* line at which it did.  One state per consumed line; accepted iff the    *)
(* whole log was consumed (post-condition).  IOEnv.PROP selects the        *)
(* property whose clauses are reported ("ALL" for every property).         *)
(***************************************************************************)
EXTENDS Props, Json, IOUtils

Rec == ndJsonDeserialize(IOEnv.TRACE)
Prop == IOEnv.PROP

VARIABLES l, g

MonInit == l = 1 /\ g = GhostInit

MonNext ==
  /\ l <= Len(Rec)
  /\ LET e == Rec[l]
         g2 == GhostStep(g, e)
         newv == {v \in g2.viol \ g.viol : Prop = "ALL" \/ v[1] = Prop}
     IN /\ (newv # {} => PrintT("MONITOR-REJECT " \o ToString(l) \o " " \o ToString(newv)))
        /\ g' = g2
  /\ l' = l + 1

MonSpec == MonInit /\ [][MonNext]_<<l, g>>

Consumed ==
  LET n == TLCGet("stats").diameter - 1 IN
  /\ PrintT("MONITOR-DONE " \o ToString(n) \o " " \o ToString(Len(Rec)))
  /\ n = Len(Rec)
=============================================================================
