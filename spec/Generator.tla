------------------------------ MODULE Generator ------------------------------
(***************************************************************************)
(* C13 - async_generator.rs: a task that yields items through a            *)
(* zero-capacity channel, polled as a Stream.  The task is an arbitrary    *)
(* program over                                                            *)
(*   Y   yield one item (Sender::send: completes when the item is TAKEN)   *)
(*   YA k yield_all of k items (send_all: each item waits for room, the    *)
(*        final flush waits until the last one is TAKEN)                   *)
(*   SW  wake itself and return Pending once (yield_once)                  *)
(*   W g await an external gate g that the environment fires               *)
(*   DH  drop the yield handle early                                       *)
(* ending with return; the consumer polls, fires gates, or drops the       *)
(* stream, in any order.  One poll_next is one atomic step that follows    *)
(* the code: task first (:163-167), then the channel (:169-175), then the  *)
(* buffered result (:177-184).                                             *)
(***************************************************************************)
EXTENDS Integers, Sequences, FiniteSets, TLC

CONSTANTS Programs,      \* set of programs: sequences of [op, g]
          MaxSteps,      \* bound on consumer actions
          Strict         \* TRUE: the consumer polls only when woken (a lost wake-up shows as a hang)

VARIABLES s, hist
vars == <<s, hist>>

Op(p, i) == IF i <= Len(p) THEN p[i] ELSE [op |-> "R", g |-> 0]
\* the value of the k-th yield is k
RECURSIVE NYieldsBefore(_, _)
NYieldsBefore(p, i) == IF i <= 1 THEN 0
                       ELSE NYieldsBefore(p, i - 1)
                            + (IF i - 1 > Len(p) THEN 0 ELSE IF p[i - 1].op = "Y" THEN 1 ELSE IF p[i - 1].op = "YA" THEN p[i - 1].g ELSE 0)

Init ==
  /\ \E p \in Programs :
       s = [prog |-> p, ip |-> 1, sub |-> 0, q |-> <<>>, parked |-> FALSE, senderAlive |-> TRUE,
            taskDone |-> FALSE, resAvail |-> FALSE, streamTerm |-> FALSE, gates |-> {},
            woken |-> FALSE, sendW |-> FALSE, recvW |-> FALSE, gateW |-> 0,
            last |-> "none", first |-> TRUE, dropped |-> FALSE, n |-> 0, taken |-> 0, completes |-> 0, ended |-> FALSE]
  /\ hist = <<>>

\* the task runs until it blocks or returns (one Future::poll of the task)
RECURSIVE Run(_)
Run(t) ==
  IF t.taskDone THEN t
  ELSE LET o == Op(t.prog, t.ip) IN
    CASE o.op = "Y" ->
           IF t.sub = 0
             THEN \* poll_ready is immediate (the previous flush waited); start_send queues the item and parks the
                  \* sender; a receiver that registered its waker is woken; flush then waits for the item to be taken
                  [t EXCEPT !.q = Append(@, NYieldsBefore(t.prog, t.ip) + 1), !.parked = TRUE, !.sub = 1, !.sendW = TRUE,
                            !.woken = @ \/ t.recvW, !.recvW = FALSE]
             ELSE IF t.parked THEN [t EXCEPT !.sendW = TRUE]
             ELSE Run([t EXCEPT !.ip = @ + 1, !.sub = 0])
      [] o.op = "YA" ->
           \* send_all: an item is started only when the sender is not parked; after the last one the flush waits
           IF t.parked THEN [t EXCEPT !.sendW = TRUE]
           ELSE IF t.sub < o.g
             THEN Run([t EXCEPT !.q = Append(@, NYieldsBefore(t.prog, t.ip) + t.sub + 1), !.parked = TRUE, !.sub = @ + 1,
                               !.woken = @ \/ t.recvW, !.recvW = FALSE])
             ELSE Run([t EXCEPT !.ip = @ + 1, !.sub = 0])
      [] o.op = "SW" ->
           IF t.sub = 0 THEN [t EXCEPT !.sub = 1, !.woken = TRUE] ELSE Run([t EXCEPT !.ip = @ + 1, !.sub = 0])
      [] o.op = "W" ->
           IF o.g \in t.gates THEN Run([t EXCEPT !.ip = @ + 1, !.gateW = 0]) ELSE [t EXCEPT !.gateW = o.g]
      [] o.op = "DH" ->
           \* dropping the last sender closes the channel and wakes a waiting receiver
           Run([t EXCEPT !.ip = @ + 1, !.senderAlive = FALSE, !.woken = @ \/ (t.recvW /\ t.senderAlive), !.recvW = FALSE])
      [] OTHER ->
           [t EXCEPT !.taskDone = TRUE, !.resAvail = TRUE, !.woken = @ \/ (t.recvW /\ t.senderAlive),
                     !.recvW = IF t.senderAlive THEN FALSE ELSE @, !.senderAlive = FALSE]

\* Generator::poll_next (:155-196)
PollNext(t0) ==
  LET t1 == Run([t0 EXCEPT !.woken = FALSE, !.first = FALSE]) IN
  IF ~t1.streamTerm /\ t1.q # <<>>
    THEN \* the receiver takes the item, unparks the sender and wakes it
         [t1 EXCEPT !.q = Tail(@), !.parked = FALSE, !.woken = @ \/ t1.sendW, !.sendW = FALSE,
                    !.last = "item", !.taken = Head(t1.q)]
  ELSE IF ~t1.streamTerm /\ t1.senderAlive
    THEN [t1 EXCEPT !.recvW = TRUE, !.last = "pending"]
  ELSE LET t2 == [t1 EXCEPT !.streamTerm = TRUE] IN
       IF ~t2.taskDone THEN [t2 EXCEPT !.last = "pending"]
       ELSE IF t2.resAvail THEN [t2 EXCEPT !.resAvail = FALSE, !.last = "complete", !.completes = @ + 1]
       ELSE [t2 EXCEPT !.last = "none", !.ended = TRUE]

\* FusedStream::is_terminated (:198-203): nothing more will ever come out
Term(t) == t.taskDone /\ t.streamTerm /\ ~t.resAvail

MayPoll == ~Strict \/ s.first \/ s.woken \/ s.last \in {"item", "complete"}

Poll ==
  /\ ~s.dropped /\ s.n < MaxSteps /\ MayPoll
  /\ LET t == PollNext(s) IN
     /\ s' = [t EXCEPT !.n = s.n + 1]
     /\ hist' = Append(hist, [a |-> "poll", g |-> 0, res |-> t.last, v |-> IF t.last = "item" THEN t.taken ELSE 0,
                              wokenBefore |-> s.woken, wokenAfter |-> t.woken, ip |-> t.ip, term |-> Term(t)])
Fire(g) ==
  /\ ~s.dropped /\ s.n < MaxSteps /\ g \notin s.gates
  /\ s' = [s EXCEPT !.gates = @ \cup {g}, !.woken = @ \/ (s.gateW = g), !.gateW = IF @ = g THEN 0 ELSE @, !.n = @ + 1]
  /\ hist' = Append(hist, [a |-> "fire", g |-> g, res |-> "", v |-> 0, wokenBefore |-> s.woken,
                           wokenAfter |-> s.woken \/ (s.gateW = g), ip |-> s.ip, term |-> Term(s)])
Next == Poll \/ \E g \in {1, 2} : Fire(g)
Spec == Init /\ [][Next]_vars

(***************************************************************************)
(* Properties (each is a clause of C13).                                   *)
(***************************************************************************)
Items == SelectSeq(hist, LAMBDA h : h.a = "poll" /\ h.res = "item")
\* every item exactly once, in emission order
Ordered == \A i \in 1..Len(Items) : Items[i].v = i
\* back-pressure: the task never runs past a yield whose item has not been taken
BackPressure == NYieldsBefore(s.prog, s.ip) <= Len(Items)
                /\ (s.q # <<>> => Op(s.prog, s.ip).op \in {"Y", "YA"} /\ s.sub >= 1)
\* a finite run ends with exactly one completion, then end-of-stream forever
Completion == /\ s.completes <= 1
              /\ (s.ended => s.completes = 1 /\ s.taskDone)
              /\ \A i \in 1..Len(hist) : hist[i].a = "poll" /\ hist[i].res = "none" =>
                    \A j \in (i + 1)..Len(hist) : hist[j].a = "poll" => hist[j].res = "none"
              /\ (s.completes = 1 => Len(Items) = NYieldsBefore(s.prog, Len(s.prog) + 1))
\* no lost wake-up: a Pending stream that has not been woken is waiting for the environment (an unfired gate)
NoLostWakeup == (s.last = "pending" /\ ~s.woken /\ ~s.dropped) =>
                   (~s.taskDone /\ Op(s.prog, s.ip).op = "W" /\ Op(s.prog, s.ip).g \notin s.gates)
\* a consumer that stops polling once the stream says it is terminated (select!, select_next_some, filter_map
\* adapters) loses nothing: terminated means the completion has been delivered
FusedSound == Term(s) => (s.completes = 1 /\ Len(Items) = NYieldsBefore(s.prog, Len(s.prog) + 1))
GenInv == Ordered /\ BackPressure /\ Completion /\ NoLostWakeup /\ FusedSound

\* liveness under a fair consumer and environment: every program runs to completion
Finishes == <>(s.ended \/ s.n >= MaxSteps)
=============================================================================
