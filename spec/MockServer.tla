----------------------------- MODULE MockServer -----------------------------
(***************************************************************************)
(* C17 - the mock Omaha server as the client sees it.  State: the          *)
(* responses map (app id -> configured decision) and the key set;          *)
(* Reconfigure replaces the map; Answer(req) lists exactly the requested   *)
(* apps in request order with the configured decision and carries an ETag  *)
(* iff the request had a cup2key for a key id the server holds.  The       *)
(* harness builds every request with the CLIENT's RequestBuilder + CUP     *)
(* handler, hands it to mock_omaha_server::handle_request in-process,       *)
(* parses the answer with the client parser, verifies it with the client   *)
(* verifier (and cross-verifies against the other exchanges of the         *)
(* history, which must fail), and runs the real state machine against it.  *)
(***************************************************************************)
EXTENDS Integers, Sequences, FiniteSets, TLC, Json

Kinds == {"NoUpdate", "Update", "UrgentUpdate", "InvalidResponse", "InvalidURL"}
KeySets == {[latest |-> 1, hist |-> {2}], [latest |-> 2, hist |-> {}], [latest |-> 3, hist |-> {1, 2}]}
Held(ks) == {ks.latest} \cup ks.hist
ClientKeys == {0, 1, 2, 3}                \* 0: the client has no CUP handler
Urls == {"/", "/svc", "/svc?x=1", "/?x=1&y=2"}

\* response maps: one app with every kind; two apps with every pair of kinds; three apps over two kinds
Maps == {<<[id |-> "a", kind |-> k]>> : k \in Kinds}
        \cup {<<[id |-> "a", kind |-> k1], [id |-> "b", kind |-> k2]>> : k1 \in Kinds, k2 \in Kinds}
        \cup {<<[id |-> "a", kind |-> k1], [id |-> "b", kind |-> k2], [id |-> "c", kind |-> k3]>> :
                k1 \in {"NoUpdate", "Update"}, k2 \in {"NoUpdate", "Update"}, k3 \in {"NoUpdate", "UrgentUpdate"}}
SmallMaps == {<<[id |-> "a", kind |-> k1], [id |-> "b", kind |-> k2]>> : k1 \in {"NoUpdate", "Update"}, k2 \in {"NoUpdate", "InvalidResponse"}}
Perms(n) == {p \in [1..n -> 1..n] : \A i, j \in 1..n : i # j => p[i] # p[j]}
KindOf(m, id) == m[CHOOSE i \in 1..Len(m) : m[i].id = id].kind

\* the server's answer to a request for the apps of `m` in order `perm`
Answer(m, perm, rk, keys, ck) ==
  [apps |-> [i \in 1..Len(m) |-> [id |-> m[perm[i]].id, kind |-> IF rk = "uc" THEN m[perm[i]].kind ELSE "none"]],
   etag |-> ck # 0 /\ ck \in Held(keys),
   parses |-> rk = "ev" \/ \A i \in 1..Len(m) : m[i].kind # "InvalidResponse"]
\* what the real state machine must observe when it runs one check against this server
Outcome(m, keys, ck) ==
  IF ck # 0 /\ ck \notin Held(keys) THEN "cup-error"
  ELSE IF \E i \in 1..Len(m) : m[i].kind = "InvalidResponse" THEN "parse-error"
  ELSE IF \E i \in 1..Len(m) : m[i].kind \in {"Update", "UrgentUpdate", "InvalidURL"} THEN "update"
  ELSE "noupdate"

\* the version of the client's apps, and how a reconfiguration spells its (absent or agreeing) version assertion:
\* explicit null, optional keys left out, or the client's own version.  None of them may change the answer.
AppVers == {"0.1.2.3", "20.2024.8.1"}
Forms == {"null", "omitted", "match"}
VARIABLES keys, ck, url, m, steps, appver
vars == <<keys, ck, url, m, steps, appver>>
Init == /\ keys \in KeySets /\ ck \in ClientKeys /\ url \in Urls /\ appver \in AppVers
        /\ \/ (m \in Maps /\ steps = <<>>)
           \/ (m \in SmallMaps /\ steps = <<[op |-> "start", map |-> m]>>)
Request(rk) == \E p \in Perms(Len(m)) :
  /\ steps' = Append(steps, [op |-> "req", rk |-> rk, order |-> [i \in 1..Len(m) |-> m[p[i]].id],
                             exp |-> Answer(m, p, rk, keys, ck), outcome |-> Outcome(m, keys, ck)])
  /\ UNCHANGED <<keys, ck, url, m, appver>>
Reconfigure == \E m2 \in SmallMaps, f \in Forms :
  /\ m2 # m
  /\ m' = m2 /\ steps' = Append(steps, [op |-> "set", map |-> m2, form |-> f])
  /\ UNCHANGED <<keys, ck, url, appver>>
\* single requests under every map; and short histories request / reconfigure / request over the small maps
Next == \/ (steps = <<>> /\ \E rk \in {"uc", "ev"} : Request(rk))
        \/ (steps # <<>> /\ steps[1].op = "start" /\ Len(steps) < 4 /\ url = "/" /\ keys.latest = 1
              /\ ((\E rk \in {"uc", "ev"} : Request(rk)) \/ (steps[Len(steps)].op # "set" /\ Reconfigure)))
Spec == Init /\ [][Next]_vars

\* laws: the answer names exactly the requested apps in request order with the decision in force
Laws == \A i \in 1..Len(steps) : steps[i].op = "req" =>
          /\ Len(steps[i].exp.apps) = Len(steps[i].order)
          /\ \A j \in 1..Len(steps[i].order) : steps[i].exp.apps[j].id = steps[i].order[j]
Complete == (steps # <<>> /\ steps[1].op # "start") \/ Len(steps) = 4
Emit == Complete => PrintT("MOCK " \o ToJson([keys |-> [latest |-> keys.latest, hist |-> keys.hist], ck |-> ck, url |-> url, appver |-> appver,
                                             steps |-> steps, m0 |-> IF steps[1].op = "start" THEN steps[1].map ELSE m,
                                             final |-> [order |-> [i \in 1..Len(m) |-> m[i].id], outcome |-> Outcome(m, keys, ck)]]))
=============================================================================
