SPECIFICATION Spec
CONSTANTS
  Programs <- MCProgs4
  MaxSteps = 12
  Strict = FALSE
INVARIANT GenInv
CHECK_DEADLOCK FALSE
