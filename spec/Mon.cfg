SPECIFICATION MonSpec
POSTCONDITION Consumed
CHECK_DEADLOCK FALSE
