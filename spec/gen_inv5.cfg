SPECIFICATION Spec
CONSTANTS
  Programs <- MCProgs5
  MaxSteps = 14
  Strict = FALSE
INVARIANT GenInv
CHECK_DEADLOCK FALSE
