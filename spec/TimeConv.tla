------------------------------ MODULE TimeConv ------------------------------
(***************************************************************************)
(* C19 - reference model of the time conversions and the two-clock time    *)
(* algebra.  A microsecond count is <<anchor, off>> (anchor-relative       *)
(* arithmetic: TLC integers are 32-bit, i64 microseconds are not); an      *)
(* instant is <<anchor, off, sub>> = that many microseconds plus sub        *)
(* nanoseconds (floor form, sub in 0..999).                                *)
(***************************************************************************)
EXTENDS Integers, Sequences, FiniteSets, TLC, Json

Anchors == {"MIN", "MIDN", "ZERO", "MIDP", "MAX"}       \* -2^63, about -10^15, 0, about +1.7*10^15, 2^63-1
Offs == -3..3
Subs == {0, 1, 500, 999}

\* is the microsecond count representable as i64?
InRange(a, o) == ~(a = "MIN" /\ o < 0) /\ ~(a = "MAX" /\ o > 0)
\* sign of an instant (negative = before the epoch)
Negative(a, o, sub) == a \in {"MIN", "MIDN"} \/ (a = "ZERO" /\ o < 0)

\* SystemTime -> microseconds: truncate toward the epoch; none exactly when it does not fit
ToMicros(a, o, sub) ==
  LET o2 == IF Negative(a, o, sub) /\ sub > 0 THEN o + 1 ELSE o IN
  IF InRange(a, o2) THEN <<a, o2>> ELSE <<"NONE", 0>>
\* microseconds -> SystemTime
FromMicros(a, o) == <<a, o, 0>>
\* the instant at storage precision
Trunc(a, o, sub) == LET m == ToMicros(a, o, sub) IN IF m[1] = "NONE" THEN <<"NONE", 0, 0>> ELSE FromMicros(m[1], m[2])

(***************************************************************************)
(* Two-clock times over small integers: wall w, monotonic m, in seconds.   *)
(***************************************************************************)
T == 0..3
D == 0..2
None == <<>>
Some(x) == <<x>>
PWall(w) == [w |-> Some(w), m |-> None]
PMono(m) == [w |-> None, m |-> Some(m)]
PBoth(w, m) == [w |-> Some(w), m |-> Some(m)]
Partials == {PWall(w) : w \in T} \cup {PMono(m) : m \in T} \cup {PBoth(w, m) : w \in T, m \in T}
Shift(p, d) == [w |-> IF p.w = None THEN None ELSE Some(p.w[1] + d), m |-> IF p.m = None THEN None ELSE Some(p.m[1] + d)]
CompleteWith(p, c) == [w |-> IF p.w = None THEN c.w ELSE p.w, m |-> IF p.m = None THEN c.m ELSE p.m]
\* "after or equal to any": at least one component present on both sides has been reached
AfterOrEqAny(c, p) == (p.w # None /\ c.w[1] >= p.w[1]) \/ (p.m # None /\ c.m[1] >= p.m[1])

VARIABLES kind, x
vars == <<kind, x>>
Init ==
  \/ (kind = "m2t2m" /\ x \in {<<a, o>> : a \in Anchors, o \in Offs})
  \/ (kind = "t2m" /\ x \in {<<a, o, s>> : a \in Anchors, o \in Offs, s \in Subs})
  \/ (kind = "add" /\ x \in {<<p, d>> : p \in Partials, d \in D})
  \/ (kind = "sub" /\ x \in {<<p, d>> : p \in {Shift(q, 2) : q \in Partials}, d \in D})
  \/ (kind = "complete" /\ x \in {<<p, c>> : p \in Partials, c \in {PBoth(w, m) : w \in {0, 3}, m \in {1, 2}}})
  \/ (kind = "after" /\ x \in {<<c, p>> : c \in {PBoth(w, m) : w \in T, m \in T}, p \in Partials})
Next == UNCHANGED vars
Spec == Init /\ [][Next]_vars

\* laws of the model itself
Laws ==
  /\ kind = "m2t2m" /\ InRange(x[1], x[2]) =>
       ToMicros(x[1], x[2], 0) = x                                \* round trip is the identity on the whole range
  /\ kind = "t2m" =>
       LET t == Trunc(x[1], x[2], x[3]) IN
       t[1] # "NONE" => Trunc(t[1], t[2], t[3]) = t                \* truncation is idempotent
  /\ kind = "after" =>
       (AfterOrEqAny(x[1], x[2]) <=> \E f \in {"w", "m"} : x[2][f] # None /\ x[1][f][1] >= x[2][f][1])
  /\ kind = "add" => Shift(Shift(x[1], x[2]), 0) = Shift(x[1], x[2])

Emit ==
  CASE kind = "m2t2m" ->
         (InRange(x[1], x[2]) => PrintT("TV " \o ToJson([k |-> kind, a |-> x[1], o |-> x[2], exp |-> ToMicros(x[1], x[2], 0)])))
    [] kind = "t2m" ->
         PrintT("TV " \o ToJson([k |-> kind, a |-> x[1], o |-> x[2], sub |-> x[3], exp |-> ToMicros(x[1], x[2], x[3]),
                                 trunc |-> Trunc(x[1], x[2], x[3])]))
    [] kind \in {"add", "sub"} ->
         PrintT("TV " \o ToJson([k |-> kind, p |-> x[1], d |-> x[2], exp |-> Shift(x[1], IF kind = "add" THEN x[2] ELSE 0 - x[2])]))
    [] kind = "complete" ->
         PrintT("TV " \o ToJson([k |-> kind, p |-> x[1], c |-> x[2], exp |-> CompleteWith(x[1], x[2])]))
    [] OTHER ->
         PrintT("TV " \o ToJson([k |-> kind, c |-> x[1], p |-> x[2], exp |-> AfterOrEqAny(x[1], x[2])]))
=============================================================================
