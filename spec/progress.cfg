SPECIFICATION Spec
CONSTANTS
  Mode = "oneshot"
  CupOn = FALSE
  Apps0 <- MCApps2
  SysApp = "a"
  UcAnswers <- MCUcInstall
  EvAnswers <- MCEvOk
  PingAnswers <- MCPing
  PlanAnswers = {"ok"}
  StartAnswers = {"ok"}
  ResultLetters = {"i", "f"}
  NeededAnswers = {FALSE}
  AllowedAnswers = {TRUE}
  CheckAnswers <- MCCheckAll
  NextAnswers <- MCNext1
  BackoffDraws = {0}
  ProgressSeqs <- MCProg3
  MaxChecks = 1
  MaxCtl = 0
  CtlSources <- MCNoSrc
  MaxRebootAsks = 0
  MaxCrashes = 0
  RestartRuns <- MCRestartNone
  FailSets <- MCFailNone
  Jumps <- MCJumpNone
  MaxJumps = 0
  ProgressModes = {"seq", "conc"}
  MaxStale = 0
  Bounded = TRUE
  Mut = "none"
INVARIANT NoViolation
INVARIANT PrintDone
CHECK_DEADLOCK FALSE
