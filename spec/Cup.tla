--------------------------------- MODULE Cup ---------------------------------
(***************************************************************************)
(* C01 / C03(a) - symbolic model of CUPv2 verification and decoration.     *)
(* Cryptography is perfect and symbolic: a hash is named by what it        *)
(* hashes, a signature by the key and the digest composition it signs.     *)
(* Accept(x) transcribes the property; Verifier(x) is the step machine the *)
(* code is (cup_ecdsa.rs:244-344): header -> unwrap -> split at the first  *)
(* colon -> hex(hash) -> compare with H(retained request) -> hex(sig) ->   *)
(* DER -> key lookup by the id PASSED -> ECDSA verify.  TLC checks         *)
(* Verifier = Accept over the whole universe (no ordering of the checks    *)
(* admits an inauthentic exchange) and prints every vector; the harness    *)
(* materialises each with real SHA-256 / P-256 through an independent      *)
(* signer and runs the real verifier.                                      *)
(***************************************************************************)
EXTENDS Integers, Sequences, FiniteSets, TLC, Json

Bodies == {"b0", "b1", "b2", "b3"}      \* b0 is the empty body; b3 is b2 behind the anti-XSSI prefix ")]}'\n" (framing the
                                        \* parser strips, but part of the signed bytes like any other)
Nonces == {"n1", "n2"}
Kids == {1, 2, 3}
Keys == {1, 2, 3, 9}                    \* key i is registered under id i; 9 belongs to the attacker
Honest == <<"req", "resp", "cup">>
Orders == {Honest, <<"resp", "req", "cup">>, <<"cup", "req", "resp">>, <<"req", "cup", "resp">>,
           <<"req", "resp">>, <<"req", "cup">>, <<"resp", "cup">>, <<"req", "req", "cup">>, <<"req", "resp", "cup", "cup">>, <<>>}
Forms == {"der", "twin", "bitflip", "trunc", "trailing", "rawrs", "garbage"}
Shapes == {"ok", "upper", "nocolon", "twocolons", "nonhex", "nonhexsig", "oddlen", "emptysig", "emptyhash"}
Wraps == {"plain", "quoted", "weak", "weakunclosed", "quoteonly"}
HashFields == Bodies \cup {"prefix"}    \* "prefix": only the first 16 bytes of the right hash

Registered(x) == {x.cfgLatest} \cup x.cfgHist

\* The signed digest as a term: the sequence of its components.  A body hash is the same term whichever role it
\* plays (swapping two equal bodies changes nothing), so terms, not role names, are compared.
Comp(x, c) == CASE c = "req" -> <<"H", x.sReq>> [] c = "resp" -> <<"H", x.sResp>> [] OTHER -> <<"C", x.sKid, x.sNonce>>
SignedTerm(x) == [i \in 1..Len(x.sOrder) |-> Comp(x, x.sOrder[i])]
RightTerm(x) == <<<<"H", x.retained>>, <<"H", x.resp>>, <<"C", x.kidPassed, x.nonce>>>>

(***************************************************************************)
(* The property, transcribed.                                              *)
(***************************************************************************)
Accept(x) ==
  /\ x.wrap \in {"plain", "quoted", "weak"}
  /\ x.shape \in {"ok", "upper"}
  /\ x.hashField = x.retained
  /\ x.form \in {"der", "twin"}           \* (r, n-s) is also a signature valid under the key
  /\ x.kidPassed \in Registered(x)
  /\ x.sKey = x.kidPassed
  /\ SignedTerm(x) = RightTerm(x)

\* the second entry point (verify_response_with_signature): only the signature itself is judged
SigValid(x) ==
  /\ x.form \in {"der", "twin"} /\ x.kidPassed \in Registered(x) /\ x.sKey = x.kidPassed
  /\ SignedTerm(x) = RightTerm(x)

(***************************************************************************)
(* The verifier as the code's sequence of steps with early exits.          *)
(***************************************************************************)
Parse(x) ==      \* what unwrap + split + hex-decode see: [colon, hashHex, sigHex]
  IF x.wrap = "quoteonly" THEN [colon |-> FALSE, hash |-> "bad", sig |-> "bad"]
  ELSE LET base == CASE x.shape \in {"ok", "upper"} -> [colon |-> TRUE, hash |-> "ok", sig |-> "ok"]
                     [] x.shape = "nocolon" -> [colon |-> FALSE, hash |-> "bad", sig |-> "bad"]
                     [] x.shape \in {"twocolons", "nonhex", "oddlen"} -> [colon |-> TRUE, hash |-> "bad", sig |-> "ok"]
                     [] x.shape = "nonhexsig" -> [colon |-> TRUE, hash |-> "ok", sig |-> "bad"]
                     [] x.shape = "emptysig" -> [colon |-> TRUE, hash |-> "ok", sig |-> "empty"]
                     [] OTHER -> [colon |-> TRUE, hash |-> "empty", sig |-> "ok"]
       IN IF x.wrap = "weakunclosed" THEN [base EXCEPT !.sig = IF base.colon THEN "bad" ELSE @] ELSE base
Verifier(x) ==
  LET p == Parse(x) IN
  IF ~p.colon THEN "EtagMalformed"
  ELSE IF p.hash = "bad" THEN "RequestHashMalformed"
  ELSE IF p.hash = "empty" \/ x.hashField # x.retained THEN "RequestHashMismatch"
  ELSE IF p.sig = "bad" THEN "SignatureMalformed"
  ELSE IF p.sig = "empty" \/ x.form \in {"trunc", "trailing", "rawrs", "garbage"} THEN "SignatureError"
  ELSE IF x.kidPassed \notin Registered(x) THEN "SpecifiedPublicKeyIdMissing"
  ELSE IF x.form = "bitflip" THEN "SignatureError"
  ELSE IF x.sKey = x.kidPassed /\ SignedTerm(x) = RightTerm(x) THEN "Ok"
  ELSE "SignatureError"

(***************************************************************************)
(* The universe: slices around genuine exchanges (DESIGN.md section 6 C01).*)
(***************************************************************************)
Clients == [retained : {"b0", "b1"}, resp : {"b0", "b2", "b3"}, nonce : {"n1"}, kidPassed : {1, 2}]
HistsFor(l) == {{}, {3}, {3 - l}, {3 - l, 3}}          \* any number of historical keys, with or without the other id
Cfgs == UNION {{[cfgLatest |-> l, cfgHist |-> h] : h \in HistsFor(l)} : l \in {1, 2}}
Vec(c, g, kidMeta, sKey, sOrder, sReq, sResp, sNonce, sKid, form, hf, shape, wrap) ==
  [retained |-> c.retained, resp |-> c.resp, nonce |-> c.nonce, kidPassed |-> c.kidPassed, kidMeta |-> kidMeta,
   cfgLatest |-> g.cfgLatest, cfgHist |-> g.cfgHist, sKey |-> sKey, sOrder |-> sOrder, sReq |-> sReq, sResp |-> sResp,
   sNonce |-> sNonce, sKid |-> sKid, form |-> form, hashField |-> hf, shape |-> shape, wrap |-> wrap]
\* A: every parameter of the signed digest and the signing key vary
SliceA == {Vec(c, g, c.kidPassed, k, Honest, sb, sp, sn, sk, "der", c.retained, "ok", "plain") :
             c \in Clients, g \in Cfgs, k \in Keys, sb \in Bodies, sp \in Bodies, sn \in Nonces, sk \in Kids}
\* B: the composition of the digest varies; the metadata's own key id differs from the id passed
SliceB == {Vec(c, g, km, c.kidPassed, o, c.retained, c.resp, c.nonce, c.kidPassed, "der", c.retained, "ok", "plain") :
             c \in Clients, g \in Cfgs, o \in Orders, km \in Kids}
\* C: every encoding of the signature, the hash field, the ETag shape and its wrapping
SliceC == {Vec(c, g, c.kidPassed, c.kidPassed, Honest, c.retained, c.resp, c.nonce, c.kidPassed, f, hf, sh, w) :
             c \in Clients, g \in {[cfgLatest |-> 1, cfgHist |-> {2}], [cfgLatest |-> 2, cfgHist |-> {}]},
             f \in Forms, hf \in HashFields, sh \in Shapes, w \in Wraps}

(***************************************************************************)
(* ETag text at token level (parse_etag + split + hex), second universe.   *)
(***************************************************************************)
Tok == {"W/", "Q", ":", "hexlow", "hexup", "nonhex", "SIG", "HASH", "space"}     \* Q is the double quote
HexTok == {"hexlow", "hexup", "SIG", "HASH"}
Unwrap(ts) ==
  IF Len(ts) >= 3 /\ ts[1] = "W/" /\ ts[2] = "Q" /\ ts[Len(ts)] = "Q" THEN SubSeq(ts, 3, Len(ts) - 1)
  ELSE IF Len(ts) >= 2 /\ ts[1] = "Q" /\ ts[Len(ts)] = "Q" THEN SubSeq(ts, 2, Len(ts) - 1)
  ELSE ts
FirstColon(ts) == LET S == {i \in 1..Len(ts) : ts[i] = ":"} IN IF S = {} THEN 0 ELSE CHOOSE i \in S : \A j \in S : i <= j
TokAccept(ts) ==
  LET u == Unwrap(ts)
      c == FirstColon(u) IN
  c # 0 /\ SubSeq(u, 1, c - 1) = <<"SIG">> /\ SubSeq(u, c + 1, Len(u)) = <<"HASH">>
TokStrings(n) == UNION {[1..k -> Tok] : k \in 0..n}

(***************************************************************************)
(* C03(a): decoration of the service URL.                                  *)
(***************************************************************************)
Schemes == {"http", "https"}
Auths == {"h", "h:8080", "[::1]", "[fe80::1]:99"}
Paths == {"", "/", "/a", "/a/"}
\* (existing parameters stay byte for byte: also percent-escapes and every sub-delimiter RFC 3986 allows in a query)
Queries == {<<>>, <<"x=1">>, <<"x=1", "y=2">>, <<"cup2key=5:ab">>, <<"a=b%20c">>, <<"q=%2Dx", "y=%25z">>,
            <<"s=a+b,c;d=(e)*!$'", "t=:@/?~_.-">>}
Url(sc, au, pa, qu) == [scheme |-> sc, auth |-> au, path |-> pa, query |-> qu]
\* exactly one parameter is appended; nothing else changes (an absent path is the root path)
Decorate(u, kid, nonce) == [u EXCEPT !.path = IF @ = "" THEN "/" ELSE @, !.query = Append(@, "cup2key=" \o kid \o ":" \o nonce)]
Urls == {Url(sc, au, pa, qu) : sc \in Schemes, au \in Auths, pa \in Paths, qu \in Queries}

\* Beyond the listed properties: HttpUriExt::extend_dir_with_path (http_uri_ext.rs:25-50).  The base path is a
\* directory: the new path is appended with exactly one '/' between them; an empty path changes nothing; the query
\* stays.  (Paths are sequences of characters so that "ends with '/'" can be said.)
PathSeqs == {<<>>, <<"/">>, <<"/", "a">>, <<"/", "a", "/">>, <<"/", "a", "/", "b">>}
SubPaths == {<<>>, <<"x">>, <<"x", "/", "y">>}
ExtendDir(bp, sub) ==
  IF sub = <<>> THEN bp
  ELSE LET b == IF bp = <<>> THEN <<"/">> ELSE bp IN
       IF b[Len(b)] = "/" THEN b \o sub ELSE b \o <<"/">> \o sub
RECURSIVE JoinChars(_)
JoinChars(cs) == IF cs = <<>> THEN "" ELSE Head(cs) \o JoinChars(Tail(cs))

VARIABLES kind, x
Init == \/ (kind = "ex" /\ x \in SliceA)
        \/ (kind = "ex" /\ x \in SliceB)
        \/ (kind = "ex" /\ x \in SliceC)
        \/ (kind = "tok" /\ x \in TokStrings(4))
        \/ (kind = "url" /\ x \in Urls)
        \/ (kind = "ext" /\ x \in {[auth |-> au, path |-> pa, sub |-> su, query |-> qu] :
                                     au \in {"h", "[::1]:8080"}, pa \in PathSeqs, su \in SubPaths, qu \in {<<>>, <<"x=1">>, <<"x=1", "y=2">>}})
Next == UNCHANGED <<kind, x>>
Spec == Init /\ [][Next]_<<kind, x>>

\* the design: no ordering of the checks admits an inauthentic exchange, and rejects no authentic one
Sound == kind = "ex" => ((Verifier(x) = "Ok") <=> Accept(x))
UrlLaw == kind = "url" => LET d == Decorate(x, "7", "nn") IN
            /\ d.scheme = x.scheme /\ d.auth = x.auth /\ Len(d.query) = Len(x.query) + 1
            /\ SubSeq(d.query, 1, Len(x.query)) = x.query
Emit ==
  CASE kind = "ex" -> PrintT("CUP " \o ToJson([k |-> "ex", x |-> x, accept |-> Accept(x), class |-> Verifier(x), sigValid |-> SigValid(x)]))
    [] kind = "tok" -> PrintT("CUP " \o ToJson([k |-> "tok", ts |-> x, accept |-> TokAccept(x)]))
    [] kind = "ext" -> PrintT("CUP " \o ToJson([k |-> "ext", auth |-> x.auth, path |-> JoinChars(x.path), sub |-> JoinChars(x.sub),
                                                  query |-> x.query, exp |-> JoinChars(ExtendDir(x.path, x.sub))]))
    [] OTHER -> PrintT("CUP " \o ToJson([k |-> "url", u |-> x, d |-> Decorate(x, "KID", "NONCE")]))
=============================================================================
