SPECIFICATION Spec
CONSTANTS
  Mode = "oneshot"
  CupOn = TRUE
  Apps0 <- MCApps1
  SysApp = "a"
  UcAnswers <- MCUcRetry
  EvAnswers <- MCEvOk
  PingAnswers <- MCPing
  PlanAnswers = {"ok"}
  StartAnswers = {"ok"}
  ResultLetters = {"i"}
  NeededAnswers = {FALSE}
  AllowedAnswers = {TRUE}
  CheckAnswers <- MCCheckAll
  NextAnswers <- MCNext1
  BackoffDraws <- MCDraws2
  ProgressSeqs <- MCProg0
  MaxChecks = 1
  MaxCtl = 0
  CtlSources <- MCNoSrc
  MaxRebootAsks = 0
  MaxCrashes = 0
  RestartRuns <- MCRestartNone
  FailSets <- MCFailNone
  Jumps <- MCJumpNone
  MaxJumps = 0
  ProgressModes = {"seq"}
  MaxStale = 0
  Bounded = TRUE
  Mut = "none"
INVARIANT NoViolation
INVARIANT PrintDone
CHECK_DEADLOCK FALSE
