----------------------------- MODULE TraceOmaha -----------------------------
(***************************************************************************)
(* Trace validation against the design model.  IOEnv.TRACE is an ndjson    *)
(* log RECORDED FROM THE REAL CODE under random scripts (several runs,     *)
(* each starting with its "cfg" line; the harness's own bookkeeping lines  *)
(* and the control replies, whose position is the driver's, are filtered   *)
(* out by lib/tracecheck.py).  The specification is Omaha.tla itself: the  *)
(* same actions, with every choice the design model leaves to its          *)
(* environment (answers of operations, timer fires, control requests,      *)
(* crashes and restarts, clock steps, failing storage operations) bound to *)
(* what the log recorded at that position, and every step required to emit *)
(* lines of the kinds recorded next.  The run configuration (mode, CUP,    *)
(* apps, system app, OS version) is taken from the "cfg" line.  What the   *)
(* model predicts for every field of every line is printed (PrintDone /    *)
(* TraceProgress) and compared with the recording by lib/replay.py, the    *)
(* same projection as in the other direction; the ghost of Props.tla runs  *)
(* on the predicted lines, so Inv_Cxx are checked here as well.            *)
(***************************************************************************)
EXTENDS MCOmaha, IOUtils

Rec == ndJsonDeserialize(IOEnv.TRACE)
Starts == {i \in 1..Len(Rec) : Rec[i].k = "cfg"}

VARIABLES l,      \* index in Rec of the last line matched
          lim     \* index of the last line of this run
tvars == <<st, obs, g, script, l, lim>>

MinOf(S) == CHOOSE x \in S : \A y \in S : x <= y
TInit ==
  \E i \in Starts :
    LET c == Rec[i].run IN
    /\ l = i - 1
    /\ lim = MinOf({j \in Starts : j > i} \cup {Len(Rec) + 1}) - 1
    /\ InitWith([mode |-> c.mode, cup |-> c.cup, sys |-> c.sys, kid |-> c.kid], c.apps, c.os)

First == MaxOr0({j \in Starts : j <= l + 1})     \* the "cfg" line of this run
NR == Rec[l + 1]
Nx(k) == l < lim /\ NR.k = k
\* the next recorded line is something the environment does to the machine
NxStim == l < lim /\ NR.k \in {"ctl.send", "clock", "crash", "tm.fire", "hold"}
\* the first line of kind k after position l in this run
FirstOf(k) == LET S == {j \in (l + 1)..lim : Rec[j].k = k} IN Rec[MinOf(S)]
HasNext(k) == \E j \in (l + 1)..lim : Rec[j].k = k

StKinds == {"st.set", "st.rm", "st.commit"}
FailsOfRun == {[k |-> Rec[j].k, n |-> Rec[j].n] : j \in {j \in (l + 1)..lim : Rec[j].k \in StKinds /\ Rec[j].ans = "err"}}

SameKey(a, b) ==
  /\ a.k = b.k
  /\ (a.k = "ev" => (a.e = b.e /\ (a.e = "state" => a.s = b.s)))
  /\ (a.k = "tm.fire" => a.tid = b.tid)
  /\ (a.k = "met" => a.m = b.m)
  /\ (a.k \in StKinds => a.ans = b.ans)
  /\ (a.k \in {"pol.check", "pol.rballowed"} => a.src = b.src)   \* whose options the policy was asked with
  /\ (a.k = "crash" => a.at = b.atk)          \* where the machine was blocked: an operation, an idle select, an event
Kept(ls) == SelectSeq(ls, LAMBDA e : e.k # "ctl.reply")
\* the replies the run recorded, by request (the "cfg" line of the filtered log carries them): a reply the model
\* gives must be the one that request got, wherever the driver happened to log it
RepliesOfRun == Rec[First].replies
ReplyOk(e) == LET r == ToString(e.req) IN Has(RepliesOfRun, r) /\ RepliesOfRun[r] = e.ans
Match ==
  LET new == SubSeq(obs', Len(obs) + 1, Len(obs'))
      nl == Kept(new) IN
  /\ \A j \in 1..Len(new) : new[j].k = "ctl.reply" => ReplyOk(new[j])
  /\ l + Len(nl) <= lim
  /\ \A j \in 1..Len(nl) : SameKey(nl[j], Rec[l + j])
  /\ l' = l + Len(nl)
  /\ lim' = lim

\* the progress values the installer reported, in order, up to its outcome
\* (up to the next crash / cut if the run never gets that far)
InstallEnd == MinOf({j \in (l + 1)..lim : Rec[j].k \in {"inst.install", "crash", "cut"}} \cup {lim + 1})
ProgressOfRun ==
  LET last == InstallEnd
      idx == SelectSeq([j \in 1..(last - 1 - l) |-> l + j], LAMBDA j : Rec[j].k = "inst.prog") IN
  [i \in 1..Len(idx) |-> Rec[idx[i]].p]
PlanAns(a) == IF Has(a, "ok") /\ IsSome(a.ok) THEN a.ok[1] ELSE "err"
RunOfRestart == LET r == FirstOf("restart").run IN [os |-> r.os, apps |-> r.apps]

\* the run is cut: the machine is dropped, outstanding requests learn that it is gone
CutLines(s) == <<Stamp([k |-> "cut"], s.clk)>>
               \o [i \in 1..Len(s.ctlq) |-> Stamp([k |-> "ctl.reply", req |-> s.ctlq[i].req, ans |-> "gone"], s.clk)]
               \o <<Stamp([k |-> "end"], s.clk)>>
CutHere ==
  /\ st.pc \in {"R7", "W3", "OP"} /\ Nx("cut")
  /\ Emit(CutLines(st))
  /\ st' = [st EXCEPT !.pc = "DONE"]
  /\ UNCHANGED script

\* a queued scheduled-source request in the reboot wait is answered without a trace in the log: taking it at once
\* (rather than at every possible later moment) keeps one explanation per run
SilentCtl == /\ st.pc = "W3" /\ st.ctlq # <<>> /\ Head(st.ctlq).src # "ondemand"
             /\ LET r == ToString(Head(st.ctlq).req) IN Has(RepliesOfRun, r) /\ RepliesOfRun[r] = "already"
\* the consumer stops polling for a while (a driver line; the machine does not notice, but what the environment does
\* meanwhile piles up)
HoldLine ==
  /\ Nx("hold")
  /\ Emit(<<Stamp([k |-> "hold", n |-> NR.n], st.clk)>>)
  /\ UNCHANGED <<st, script>>
TStepRest ==
  \/ (Nx("cfg") /\ B0_With(FailsOfRun))
  \/ HoldLine
  \/ R4_ReportWait
  \/ (Nx("crash") /\ HasNext("restart") /\ Crash(RunOfRestart))
  \/ (Nx("clock") /\ ClockJump(NR.dw))
  \/ (Nx("pol.next") /\ st.pc = "R5" /\ R5_Next(NR.ans, "R7"))
  \/ (Nx("tm.fire") /\ ((\E w \in {"until", "for", "rb"} : FireTimer(w)) \/ FireStale(NR.tid)))
  \/ (Nx("ctl.send") /\ (CtlSendIdle(NR.src) \/ CtlSendBusy(NR.src) \/ CtlSendPing(NR.src)))
  \/ (~NxStim /\ (R7_TakeTimer \/ R7_TakeCtl))
  \/ (Nx("pol.check") /\ R8_Allowed(NR.ans))
  \/ P1_Checking \/ P4a_Build
  \/ (st.pc = "O2" /\ Nx("http." \o st.rq.kind) /\ O2_Http(NR.ans))
  \/ O4_Header
  \/ P4b_Classify(0)
  \/ (Nx("tm.fire") /\ P4w_BackoffDone)
  \/ P6_Parse \/ P6r
  \/ (Nx("inst.plan") /\ P9_Plan(PlanAns(NR.ans)))
  \/ P9r \/ P9e_PlanFailed
  \/ (~NxStim /\ OpDone)
  \/ (Nx("pol.start") /\ P10_CanStart(NR.ans))
  \/ P10r \/ P10d_NotNow \/ P11_Started \/ P12_FirstSeen
  \/ (st.pc = "P13" /\ Nx("inst.begin")
        /\ IF InstallEnd <= lim /\ Rec[InstallEnd].k = "inst.install"
             THEN P13_InstallM(Rec[InstallEnd].ans.results, ProgressOfRun, Rec[InstallEnd].ans.pmode)
             \* the run is crashed or cut while progress is delivered: the outcome is never seen
             ELSE P13_InstallM([i \in 1..Len(Offered(st.ck.doc)) |-> "i"], ProgressOfRun,
                               IF \E j \in (l + 1)..(InstallEnd - 1) : Rec[j].k = "inst.prog.ret" THEN "seq" ELSE "conc"))
  \/ P15_AppEvents \/ P16_Complete \/ P17 \/ P18_Errors
  \/ (Nx("pol.rbneeded") /\ P20_Needed(NR.ans))
  \/ S3_Ok \/ S4_Err \/ S5_Close
  \/ R11_Wfr
  \/ (Nx("pol.rballowed") /\ (W1_Ask(NR.ans) \/ W3_RebootTimer(NR.ans) \/ W3_Ctl(NR.ans)))
  \/ (Nx("pol.next") /\ st.pc = "W2" /\ R5_Next(NR.ans, "W3"))
  \/ (~NxStim /\ W3_PingTimer)
  \/ G2_PingDone
  \/ W9_Reboot \/ R12_Idle
  \/ EndOneShot
  \/ (Nx("end") /\ EndStart)
  \/ CutHere

TStep ==
  IF SilentCtl THEN W3_Ctl(FALSE) ELSE TStepRest

(***************************************************************************)
(* Grain of atomicity.  The recorded runs crash the machine (or cut the    *)
(* run) at ANY await: also at a storage or policy operation, or while an   *)
(* event is being taken, which lie inside one atomic step of Omaha.tla.    *)
(* Such a record is matched by the step COMPOSED with a truncation: the    *)
(* step's lines up to the recorded crash are kept, and the machine is      *)
(* rebuilt from what the log prefix says survives (Omaha!Pseudo, checked   *)
(* against the model's own Crash by the invariant RecoverAgrees).          *)
(* TLC evaluates A \cdot B with -Dtlc2.tool.impl.Tool.cdot=true.           *)
(***************************************************************************)
KeptIdx(ls) == SelectSeq([i \in 1..Len(ls) |-> i], LAMBDA i : ls[i].k # "ctl.reply")
RunAfter(p) == LET S == {j \in (p + 1)..lim : Rec[j].k = "restart"}
                   r == Rec[MinOf(S)].run IN [os |-> r.os, apps |-> r.apps]
CutAt ==
  LET m == l - First + 1
      ki == KeptIdx(obs)
      new == Len(ki) - m IN
  /\ \E i \in 1..new :
       /\ \A j \in 1..i : SameKey(obs[ki[m + j]], Rec[l + j])
       /\ l + i < lim /\ Rec[l + i + 1].k \in {"crash", "cut"}
       /\ (Rec[l + i + 1].k = "crash" => Rec[l + i + 1].atk = obs[ki[m + i]].k)
       \* (replies the step logs right after an EVENT were sent before it was taken; after an operation's line they
       \* are what happens once it completes, which it never does - unless the model marks them `early`)
       /\ LET p0 == ki[m + i]
              stop == IF m + i < Len(ki) THEN ki[m + i + 1] - 1 ELSE Len(obs)
              Sent(e) == obs[p0].k = "ev" \/ Has(e, "early")
              p1 == CHOOSE p \in p0..stop : (\A q \in (p0 + 1)..p : Sent(obs[q])) /\ (p = stop \/ ~Sent(obs[p + 1]))
              pre == SubSeq(obs, 1, p1)
              last == pre[Len(pre)] IN
          IF Rec[l + i + 1].k = "crash"
            THEN /\ \E j \in (l + i + 2)..lim : Rec[j].k = "restart"
                 /\ LET r == CrashTo(Pseudo(pre, st), RunAfter(l + i + 1)) IN
                    /\ st' = r.st
                    /\ obs' = pre \o r.lines
                    /\ g' = FoldGhost(GhostInit, pre \o r.lines)
                    /\ l' = l + i + 2
            ELSE LET tail == CutLines(Pseudo(pre, st)) IN
                 /\ st' = [st EXCEPT !.pc = "DONE"]
                 /\ obs' = pre \o tail
                 /\ g' = FoldGhost(GhostInit, pre \o tail)
                 /\ l' = l + i + 2
  /\ script' = script /\ lim' = lim

TNext == (TStep /\ Match) \/ ((TStep /\ UNCHANGED <<l, lim>>) \cdot CutAt)
TSpec == TInit /\ [][TNext]_tvars

\* one line per state: which run, how far; complete runs print the whole predicted log
TraceProgress == PrintT("TP " \o ToString(lim) \o " " \o ToString(l) \o " " \o st.pc)
TraceDone == (Done \/ l = lim) => PrintT("BEHAVIOUR " \o ToJson([lim |-> lim, l |-> l, obs |-> obs]))
=============================================================================
