SPECIFICATION Spec
CONSTANTS
  Mode = "start"
  CupOn = FALSE
  Apps0 <- MCApps1
  SysApp = "a"
  UcAnswers <- MCUcHistory
  EvAnswers <- MCEvOk
  PingAnswers <- MCPing
  PlanAnswers = {"ok"}
  StartAnswers = {"ok"}
  ResultLetters = {"i", "f"}
  NeededAnswers = {TRUE}
  AllowedAnswers = {TRUE, FALSE}
  CheckAnswers <- MCCheckOkOnly
  NextAnswers <- MCNext1
  BackoffDraws = {0}
  ProgressSeqs <- MCProg0
  MaxChecks = 2
  MaxCtl = 0
  CtlSources <- MCSrcBoth
  MaxRebootAsks = 1
  MaxCrashes = 2
  RestartRuns <- MCRestarts
  FailSets <- MCFailNone
  Jumps <- MCJumpNone
  MaxJumps = 0
  ProgressModes = {"seq"}
  MaxStale = 0
  Bounded = TRUE
  Mut = "none"
INVARIANT NoViolation
INVARIANT RecoverAgrees
VIEW View
CHECK_DEADLOCK FALSE
