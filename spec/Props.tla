------------------------------- MODULE Props -------------------------------
(***************************************************************************)
(* The listed properties of omaha-client, written once, over a small       *)
(* "ghost" state that is a fold over the observable event alphabet         *)
(* (DESIGN.md 4.2).  GhostStep(g, e) is the only operator that interprets  *)
(* events.  The design model (Omaha.tla) applies it to the events its      *)
(* actions emit; the monitor (Mon.tla) applies it to lines recorded from   *)
(* the real code.  A violated clause is added to g.viol as <<prop, name>>. *)
(*                                                                         *)
(* Conventions of the alphabet (the harness guarantees them):              *)
(*   - Option values are sequences of length <= 1; no JSON null.           *)
(*   - Integers are clamped to [-BIG, BIG].                                *)
(*   - Every line carries tw/tm: wall / monotonic clock in whole ticks.    *)
(***************************************************************************)
EXTENDS Integers, Sequences, FiniteSets, TLC

BIG == 1073741824
None == <<>>
Some(x) == <<x>>
IsSome(o) == Len(o) = 1
Has(r, f) == f \in DOMAIN r
Chk(p, name, cond) == IF cond THEN {} ELSE {<<p, name>>}
Inc(x) == IF x >= BIG THEN BIG ELSE x + 1
Min(a, b) == IF a <= b THEN a ELSE b
Range(s) == {s[i] : i \in 1..Len(s)}
Last(s) == s[Len(s)]
SelectIdx(s, P(_)) == {i \in 1..Len(s) : P(s[i])}
Filter(s, P(_)) == SelectSeq(s, P)
MapSeq(s, F(_)) == [i \in 1..Len(s) |-> F(s[i])]

(***************************************************************************)
(* C07: the value of an X-Retry-After header.  A header value is a         *)
(* sequence of byte codes.  Digits only: the decimal value if it fits a    *)
(* u64, capped at 86400; anything else: absent.  A leading '+' followed    *)
(* by digits is deliberately unconstrained (DESIGN.md 7.2).                *)
(***************************************************************************)
IsDigit(b) == b >= 48 /\ b <= 57
AllDigits(bs) == Len(bs) > 0 /\ \A i \in 1..Len(bs) : IsDigit(bs[i])
RECURSIVE StripZeros(_)
StripZeros(bs) == IF bs # <<>> /\ Head(bs) = 48 THEN StripZeros(Tail(bs)) ELSE bs
U64MAX == <<49,56,52,52,54,55,52,52,48,55,51,55,48,57,53,53,49,54,49,53>>
RECURSIVE LexLE(_, _)
LexLE(a, b) == IF a = <<>> THEN TRUE
               ELSE IF Head(a) < Head(b) THEN TRUE
               ELSE IF Head(a) > Head(b) THEN FALSE
               ELSE LexLE(Tail(a), Tail(b))
FitsU64(ds) == Len(ds) < 20 \/ (Len(ds) = 20 /\ LexLE(ds, U64MAX))
RECURSIVE DecVal(_, _)
DecVal(ds, acc) == IF ds = <<>> THEN acc ELSE DecVal(Tail(ds), acc * 10 + (Head(ds) - 48))
Capped(ds) == IF Len(ds) > 5 THEN 86400 ELSE Min(DecVal(ds, 0), 86400)
\* result: [unk |-> BOOLEAN, v |-> option of seconds]
XraParse(bs) ==
  IF AllDigits(bs)
    THEN LET ds == StripZeros(bs) IN
         IF FitsU64(ds) THEN [unk |-> FALSE, v |-> Some(Capped(ds))] ELSE [unk |-> FALSE, v |-> None]
  ELSE IF Len(bs) >= 2 /\ bs[1] = 43 /\ AllDigits(Tail(bs)) THEN [unk |-> TRUE, v |-> None]
  ELSE [unk |-> FALSE, v |-> None]
XraOf(list) ==
  IF list = <<>> THEN [unk |-> FALSE, v |-> None]
  ELSE IF \A i \in 1..Len(list) : list[i] = list[1] THEN XraParse(list[1])
  ELSE [unk |-> TRUE, v |-> None]

(***************************************************************************)
(* Classification of an HTTP answer (what the environment served).         *)
(***************************************************************************)
HasResp(a) == a.cls = "resp"
Authentic(g, a) == HasResp(a) /\ (~g.cup \/ a.auth = "genuine")
Is2xx(a) == a.status >= 200 /\ a.status < 300
ExOk(g, a) == Authentic(g, a) /\ Is2xx(a)            \* the exchange yields a usable body
BodyIsDoc(a) == Has(a.body, "doc")
\* may the update-check attempt be retried (C06)?
Retryable(g, a) == \/ a.cls \in {"transport", "timeout"}
                   \/ (Authentic(g, a) /\ ~Is2xx(a))
Unauth(g, a) == HasResp(a) /\ ~Authentic(g, a)

(***************************************************************************)
(* Documents.                                                              *)
(***************************************************************************)
IsOffered(a) == IsSome(a.uc) /\ a.uc[1].status = "ok"
Offered(doc) == Filter(doc.apps, IsOffered)
DocDays(doc) == IF IsSome(doc.daystart) THEN doc.daystart[1].days ELSE None
ManifestVer(a) == a.uc[1].ver            \* "None" when there is no manifest

(***************************************************************************)
(* Ghost state.                                                            *)
(***************************************************************************)
NoParams == [src |-> "scheduledtask", dis |-> FALSE, same |-> FALSE]
EmptyLut == [w |-> None, m |-> None]

CheckInit == [
  inCheck |-> FALSE, ann |-> <<>>, tail |-> <<>>, chkTw |-> 0, chkTm |-> 0, jumped |-> FALSE,
  ucs |-> <<>>, bo |-> 0, usable |-> FALSE, hasDoc |-> FALSE, doc |-> [apps |-> <<>>, daystart |-> None],
  planAns |-> "none", planId |-> "", decision |-> "none", results |-> <<>>, installCalled |-> FALSE,
  needed |-> "none", nInsErr |-> 0, respEv |-> FALSE, reps |-> <<>>, lostExp |-> 0, lostSeen |-> 0,
  nRespTime |-> 0, rpcSeen |-> FALSE, rpcCount |-> 0, rpcOk |-> FALSE, failReason |-> "none",
  attCheck |-> FALSE, attInst |-> FALSE, tainted |-> FALSE, buildFail |-> FALSE, sid |-> 0, nResult |-> 0,
  progRep |-> <<>>, progTaken |-> <<>>, appsAtStart |-> <<>> ]

\* the wait in force: what the policy asked for and what has been armed / fired (C12)
\* lines the environment (driver) writes, and lines of operations the machine blocks on until the driver completes them
EnvKinds == {"tm.fire", "ctl.send", "ctl.drop", "clock", "crash", "restart", "cut", "end", "dropstream", "hang", "hold",
             "tm.nofire", "ctl.nohandle"}
GatedKinds == {"http.uc", "http.ev", "http.ping", "pol.next", "pol.check", "pol.start", "pol.rbneeded", "pol.rballowed",
               "inst.plan", "inst.install", "inst.reboot", "st.set", "st.rm", "st.commit"}
WaitInit == [ph |-> "none", exp |-> <<>>, untilTid |-> 0, forTid |-> 0, untilFired |-> FALSE, forFired |-> FALSE]

GhostInit == [
  viol |-> {}, started |-> FALSE, opPend |-> FALSE, held |-> FALSE,
  cup |-> FALSE, mode |-> "start", kid |-> 0, apps |-> <<>>, sys |-> "", os |-> "", invalid |-> FALSE,
  faulty |-> FALSE, dead |-> FALSE, panicked |-> FALSE,
  usedRids |-> {}, usedNonces |-> {}, usedSids |-> {},
  poll |-> None, pollUnk |-> FALSE, fails |-> 0, failsUnk |-> FALSE, lut |-> EmptyLut,
  unauth |-> FALSE, pp |-> "none",
  consent |-> FALSE, params |-> NoParams, optSrc |-> "scheduledtask",
  post |-> "none", rebootExp |-> FALSE, inWfr |-> FALSE, lastInstallNoFail |-> FALSE,
  rbAllowed |-> "none", pingOk |-> FALSE, pingTm |-> 0,
  w |-> WaitInit, rbTid |-> 0, rbFired |-> FALSE, rbRearm |-> FALSE,
  ctlOut |-> {}, ctlSrc |-> <<>>, busy |-> FALSE, lastPolCheck |-> [d |-> "none", src |-> "", n |-> 0],
  nPolCheck |-> 0, servedAt |-> 0, odPending |-> FALSE, odTaken |-> FALSE,
  snap |-> <<>>, persisting |-> FALSE, cut |-> FALSE, pingFx |-> "none", runNo |-> 0,
  twin |-> FALSE, ref |-> <<>>, cur |-> <<>>,
  fi |-> 0, fiUnk |-> FALSE, startTm |-> 0, wfrPending |-> FALSE, wfrDone |-> FALSE, finish |-> [s |-> 0, ns |-> 0],
  fsPlan |-> "", fsWritten |-> FALSE, finSet |-> FALSE, tvSet |-> "",
  c |-> CheckInit ]

V(g, vs) == [g EXCEPT !.viol = @ \cup vs]

(***************************************************************************)
(* Validity of the configured app set (C05).                               *)
(***************************************************************************)
AppInvalid(a) == a.id = "" \/ a.ver = "0.0.0.0"

StoredPoll(store) ==
  IF Has(store, "server_dictated_poll_interval")
    THEN LET p == store["server_dictated_poll_interval"] IN
         IF Has(p, "bad") \/ p.s < 0 THEN [unk |-> FALSE, v |-> None]
         ELSE IF p.exact /\ p.s < BIG THEN [unk |-> FALSE, v |-> Some(p.s)]
         ELSE [unk |-> TRUE, v |-> None]
    ELSE [unk |-> FALSE, v |-> None]
StoredFails(store) ==
  IF Has(store, "consecutive_failed_update_checks")
    THEN LET f == store["consecutive_failed_update_checks"] IN
         IF f < 0 THEN [unk |-> FALSE, v |-> 0]     \* wrong type or negative: defaults to 0
         ELSE IF f >= BIG THEN [unk |-> TRUE, v |-> 0] ELSE [unk |-> FALSE, v |-> f]
    ELSE [unk |-> FALSE, v |-> 0]

StoredLut(store) ==
  IF Has(store, "last_update_time") /\ ~Has(store["last_update_time"], "bad")
    THEN [w |-> Some([s |-> store["last_update_time"].s, ns |-> store["last_update_time"].ns]), m |-> None]
    ELSE EmptyLut

\* C09: restore rule - stored values fill only what the embedder left unset
LoadApp(a, store) ==
  IF Has(store, a.id) /\ ~Has(store[a.id], "bad")
    THEN LET p == store[a.id] IN
         [a EXCEPT !.cohort = [k \in (DOMAIN p.cohort) \cup (DOMAIN a.cohort) |->
                                 IF k \in DOMAIN a.cohort THEN a.cohort[k] ELSE p.cohort[k]],
                   !.uc = IF a.uc = None THEN p.uc ELSE a.uc]
    ELSE a
LoadApps(apps, store) == [i \in 1..Len(apps) |-> LoadApp(apps[i], store)]

\* C09: merge rule - first response entry with the app's id; present fields replace, absent keep
FirstEntry(doc, id) == LET S == {i \in 1..Len(doc.apps) : doc.apps[i].id = id}
                       IN IF S = {} THEN 0 ELSE CHOOSE i \in S : \A j \in S : i <= j
MergeCohort(old, new) == [k \in (DOMAIN old) \cup (DOMAIN new) |-> IF k \in DOMAIN new THEN new[k] ELSE old[k]]
MergeApps(apps, doc) ==
  [i \in 1..Len(apps) |->
     LET k == FirstEntry(doc, apps[i].id) IN
     IF k = 0 THEN apps[i]
     ELSE [apps[i] EXCEPT !.cohort = MergeCohort(@, doc.apps[k].cohort), !.uc = DocDays(doc)]]

StoredFi(store) ==
  IF Has(store, "consecutive_failed_install_attempts")
    THEN LET f == store["consecutive_failed_install_attempts"] IN
         IF f < 0 \/ f >= BIG THEN [unk |-> TRUE, v |-> 0] ELSE [unk |-> FALSE, v |-> f]
    ELSE [unk |-> FALSE, v |-> 0]
GoodTime(store, k) == Has(store, k) /\ ~Has(store[k], "bad")

StartRun(g, run, store) ==
  LET sp == StoredPoll(store)
      sf == StoredFails(store)
      si == StoredFi(store) IN
  [g EXCEPT !.cup = run.cup, !.mode = run.mode, !.kid = run.kid, !.apps = LoadApps(run.apps, store), !.sys = run.sys,
            !.os = run.os, !.invalid = \E i \in 1..Len(run.apps) : AppInvalid(run.apps[i]),
            !.dead = FALSE, !.poll = sp.v, !.pollUnk = sp.unk, !.fails = sf.v, !.failsUnk = sf.unk,
            !.lut = StoredLut(store), !.unauth = FALSE, !.pp = "none", !.consent = FALSE, !.params = NoParams,
            !.post = "none", !.rebootExp = FALSE, !.inWfr = FALSE, !.rbAllowed = "none", !.pingOk = FALSE,
            !.w = WaitInit, !.rbTid = 0, !.rbFired = FALSE, !.rbRearm = FALSE, !.busy = FALSE,
            !.c = CheckInit, !.started = TRUE, !.snap = store, !.persisting = FALSE, !.cut = FALSE,
            !.pingFx = "none", !.finSet = FALSE, !.tvSet = "", !.fsWritten = FALSE, !.odPending = FALSE,
            !.fi = si.v, !.fiUnk = si.unk, !.startTm = 0, !.wfrDone = FALSE,
            !.wfrPending = GoodTime(store, "update_finish_time") /\ Has(store, "target_version")
                           /\ store["target_version"] = run.os,
            !.finish = IF GoodTime(store, "update_finish_time")
                         THEN [s |-> store["update_finish_time"].s, ns |-> store["update_finish_time"].ns]
                         ELSE [s |-> 0, ns |-> 0],
            !.fsPlan = IF Has(store, "install_plan_id") THEN store["install_plan_id"] ELSE ""]

\* C14 transparency: a twin scenario re-runs the preceding healthy script with storage failures injected;
\* its request / event projection must equal the healthy one.
StepCfg(g, e) ==
  LET tw == Has(e.run, "twin") /\ e.run.twin
      g1 == StartRun(GhostInit, e.run, e.store) IN      \* violations are reported per scenario
  [g1 EXCEPT !.startTm = e.tm, !.twin = tw, !.cur = <<>>,
             !.ref = IF tw THEN (IF g.twin THEN g.ref ELSE g.cur) ELSE <<>>]
StepRestart(g, e) == [StartRun(g, e.run, e.store) EXCEPT !.startTm = e.tm, !.runNo = g.runNo + 1]

(***************************************************************************)
(* Expected per-app action of the result (C04).                            *)
(***************************************************************************)
ResAction(r) == CASE r = "i" -> "updated" [] r = "d" -> "deferred" [] r = "f" -> "failed" [] OTHER -> "?"
\* index of app i of the document among the offered ones
OfferedRank(doc, i) == Cardinality({j \in 1..i : IsOffered(doc.apps[j])})
ExpAction(c, i) ==
  LET a == c.doc.apps[i] IN
  IF Offered(c.doc) = <<>> THEN "noupdate"
  ELSE IF c.decision = "deferred" THEN (IF IsOffered(a) THEN "deferred" ELSE "any")
  ELSE IF c.decision = "denied" THEN (IF IsOffered(a) THEN "denied" ELSE "any")
  \* (total: an offered app without an installer result - the installer was never run - matches no reported action)
  ELSE IF IsOffered(a) THEN (IF OfferedRank(c.doc, i) <= Len(c.results) THEN ResAction(c.results[OfferedRank(c.doc, i)]) ELSE "?")
  ELSE "noupdate"

\* the error class the result must carry when the check failed
LastUc(c) == Last(c.ucs)
NoWire(c) == c.buildFail \/ c.ucs = <<>>       \* the request could not even be constructed
ExpErr(g, c) ==
  IF NoWire(c) THEN {"build", "cupdec", "json"}
  ELSE LET u == LastUc(c) IN
       IF u.cls \in {"transport", "timeout", "user"} THEN {"transport"}
       ELSE IF u.unauth THEN {"cupval"}
       ELSE IF ~u.ok THEN {"status"}
       ELSE IF ~c.hasDoc THEN {"parse"}
       ELSE IF c.planAns = "err" THEN {"plan"}
       ELSE {"?"}
ExpReason(g, c) ==
  IF NoWire(c) THEN "Internal"
  ELSE LET u == LastUc(c) IN
       IF u.cls \in {"transport", "timeout", "user"} THEN "Network"
       ELSE IF u.unauth THEN "Internal"
       ELSE IF ~u.ok THEN "Network"
       ELSE "Omaha"

HasFailed(c) == \E i \in 1..Len(c.results) : c.results[i] = "f"
NFailed(c) == Cardinality({i \in 1..Len(c.results) : c.results[i] = "f"})
AnyInstalled(c) == \E i \in 1..Len(c.results) : c.results[i] = "i"
CheckOk(c) == c.usable /\ c.planAns # "err"

(***************************************************************************)
(* C10: the reports a check must send, as a sequence of requests; each     *)
(* request is a sequence of [id, evs] in wire order; an event is           *)
(* <<type, result, errorcode-option, prev, next, hasDownloadTime>>.        *)
(***************************************************************************)
KnownApp(c, id) == \E i \in 1..Len(c.appsAtStart) : c.appsAtStart[i].id = id
AppVer(c, id) == LET i == CHOOSE i \in 1..Len(c.appsAtStart) : c.appsAtStart[i].id = id
                 IN c.appsAtStart[i].ver
IsOfferedId(c, id) == \E i \in 1..Len(c.doc.apps) : c.doc.apps[i].id = id /\ IsOffered(c.doc.apps[i])
\* the code keeps a map id -> manifest version: the last offered entry with that id wins
NextVerOf(c, id) == LET S == {i \in 1..Len(c.doc.apps) : c.doc.apps[i].id = id /\ IsOffered(c.doc.apps[i])}
                        i == CHOOSE i \in S : \A j \in S : j <= i
                    IN ManifestVer(c.doc.apps[i])
Ev(t, r, e, prev, next, dl) == [t |-> Some(t), r |-> Some(r), e |-> e, prev |-> prev, next |-> next, dl |-> dl]
\* a "template" report: the app set's apps (in app-set order) that were offered an update
TemplateReport(c, t, r, e, dl) ==
  MapSeq(Filter(c.appsAtStart, LAMBDA a : IsOfferedId(c, a.id)),
         LAMBDA a : [id |-> a.id, evs |-> <<Ev(t, r, e, a.ver, NextVerOf(c, a.id), dl)>>])
ParseErrReport(c) ==
  MapSeq(c.appsAtStart, LAMBDA a : [id |-> a.id, evs |-> <<Ev(3, 0, Some(0), a.ver, "None", FALSE)>>])
\* per-app events after an install: offered entries in document order zipped with results; known apps only
ResEv(c, a, r) ==
  CASE r = "i" -> Ev(14, 1, None, AppVer(c, a.id), ManifestVer(a), TRUE)
    [] r = "d" -> Ev(3, 9, None, AppVer(c, a.id), ManifestVer(a), TRUE)
    [] OTHER   -> Ev(3, 0, Some(2), AppVer(c, a.id), ManifestVer(a), TRUE)
RECURSIVE MergeById(_, _)
\* insert-and-merge by id, first-insertion order (what the request builder does)
MergeById(acc, items) ==
  IF items = <<>> THEN acc
  ELSE LET it == Head(items)
           S == {i \in 1..Len(acc) : acc[i].id = it.id} IN
       IF S = {} THEN MergeById(Append(acc, it), Tail(items))
       ELSE LET i == CHOOSE i \in S : TRUE IN
            MergeById([acc EXCEPT ![i].evs = @ \o it.evs], Tail(items))
PerAppReport(c) ==
  LET off == Offered(c.doc)
      idx == {i \in 1..Len(off) : KnownApp(c, off[i].id) /\ i <= Len(c.results)}
      RECURSIVE Build(_)
      Build(i) == IF i > Len(off) THEN <<>>
                  ELSE (IF i \in idx THEN <<[id |-> off[i].id, evs |-> <<ResEv(c, off[i], c.results[i])>>]>> ELSE <<>>)
                       \o Build(i + 1)
  IN MergeById(<<>>, Build(1))
NEventsOf(rep) == LET RECURSIVE Sum(_)
                      Sum(s) == IF s = <<>> THEN 0 ELSE Len(Head(s).evs) + Sum(Tail(s))
                  IN Sum(rep)
CompleteReport(c) ==
  LET off == Offered(c.doc)
      RECURSIVE Build(_)
      Build(i) == IF i > Len(off) THEN <<>>
                  ELSE (IF KnownApp(c, off[i].id) /\ i <= Len(c.results) /\ c.results[i] = "i"
                          THEN <<[id |-> off[i].id,
                                  evs |-> <<Ev(3, 1, None, AppVer(c, off[i].id), NextVerOf(c, off[i].id), TRUE)>>]>>
                          ELSE <<>>)
                       \o Build(i + 1)
  IN MergeById(<<>>, Build(1))
AnyKnownInstalled(c) == CompleteReport(c) # <<>>
NoDl(reps) == [i \in 1..Len(reps) |-> [j \in 1..Len(reps[i]) |->
                 [reps[i][j] EXCEPT !.evs = [k \in 1..Len(@) |-> [@[k] EXCEPT !.dl = FALSE]]]]]

ExpectedReports(c) ==
  IF ~c.usable /\ c.ucs # <<>> /\ LastUc(c).ok /\ ~c.hasDoc THEN <<ParseErrReport(c)>>
  ELSE IF ~c.usable THEN <<>>
  ELSE IF Offered(c.doc) = <<>> THEN <<>>
  ELSE IF c.planAns = "err" THEN <<TemplateReport(c, 3, 0, Some(1), FALSE)>>
  ELSE IF c.decision = "deferred" THEN <<TemplateReport(c, 3, 9, None, FALSE)>>
  ELSE IF c.decision = "denied" THEN <<TemplateReport(c, 3, 0, Some(3), FALSE)>>
  ELSE IF c.decision = "ok" /\ c.installCalled THEN
       <<TemplateReport(c, 13, 1, None, FALSE), PerAppReport(c)>>
       \o (IF AnyKnownInstalled(c) THEN <<CompleteReport(c)>> ELSE <<>>)
  ELSE <<>>
\* lost-event metrics expected for an undelivered report at position i
LostFor(c, i) == IF c.decision = "ok" /\ c.installCalled /\ i = 2 THEN NEventsOf(PerAppReport(c)) ELSE 1

CtxKeys == {"last_update_time", "server_dictated_poll_interval", "consecutive_failed_update_checks"}
Restrict(r, K) == [k \in (DOMAIN r) \cap K |-> r[k]]
\* what a context persist must leave in storage, given the in-memory values the ghost expects
TruncUs(t) == [s |-> t.s, ns |-> (t.ns \div 1000) * 1000]
ExpCtxDom(g) == (IF IsSome(g.lut.w) THEN {"last_update_time"} ELSE {})
                \cup (IF IsSome(g.poll) THEN {"server_dictated_poll_interval"} ELSE {})
                \cup (IF g.fails > 0 THEN {"consecutive_failed_update_checks"} ELSE {})
ExpCtx(g) ==
  [k \in ExpCtxDom(g) |->
     CASE k = "last_update_time" -> TruncUs(g.lut.w[1])
       [] k = "server_dictated_poll_interval" -> [s |-> g.poll[1], exact |-> TRUE]
       [] OTHER -> g.fails]
CtxKnown(g) == ~g.pollUnk /\ ~g.failsUnk /\ ~g.faulty
AppRec(a) == [cohort |-> a.cohort, uc |-> a.uc]
AppsCommitted(g, snap) == \A i \in 1..Len(g.apps) : Has(snap, g.apps[i].id) /\ snap[g.apps[i].id] = AppRec(g.apps[i])


(***************************************************************************)
(* Event steps.                                                            *)
(***************************************************************************)
PushTail(t, x) == IF Len(t) < 3 THEN Append(t, x) ELSE <<t[2], t[3], x>>

\* a ProtocolStateChange or policy call shows the poll interval and failure count in force
ObservePoll(g, obs, prop) ==
  IF g.pollUnk THEN [g EXCEPT !.poll = obs, !.pollUnk = FALSE]
  ELSE IF obs = g.poll THEN [g EXCEPT !.unauth = FALSE]
  ELSE V([g EXCEPT !.poll = obs, !.unauth = FALSE],
         IF g.unauth THEN {<<"C02", "poll-from-unauthenticated">>} ELSE {<<prop, "poll-value">>})

StepState(g, e) ==
  LET c == g.c IN
  IF e.s = "Checking" THEN
    LET vs == Chk("C04", "checking-while-in-check", ~c.inCheck)
              \cup Chk("C04", "no-idle-after-check", g.post = "none" \/ g.mode = "oneshot")
              \cup Chk("C05", "check-without-consent", g.mode = "oneshot" \/ g.consent)
              \cup Chk("C04", "checking-src", e.src = g.params.src)
              \cup Chk("C05", "invalid-appset-ran", ~g.invalid)
    IN V([g EXCEPT !.consent = FALSE, !.post = "none", !.finSet = FALSE, !.tvSet = "", !.fsWritten = FALSE,
                   !.c = [CheckInit EXCEPT !.inCheck = TRUE, !.ann = <<"Checking">>, !.tail = <<"state">>,
                                           !.chkTw = e.tw, !.chkTm = e.tm, !.appsAtStart = g.apps]], vs)
  ELSE IF e.s = "Idle" THEN
    LET vs == Chk("C04", "idle-in-check", ~c.inCheck)
              \cup (IF CtxKnown(g) THEN Chk("C08", "durable-when-idle", Restrict(g.snap, CtxKeys) = ExpCtx(g))
                                         \cup Chk("C09", "apps-durable-when-idle", AppsCommitted(g, g.snap))
                                    ELSE {})
              \cup Chk("C04", "idle-unexpected", g.post \in {"afterResult", "inWfr"})
              \cup Chk("C04", "missing-waiting-for-reboot", ~(g.post = "afterResult" /\ g.rebootExp))
    IN V([g EXCEPT !.post = "none", !.inWfr = FALSE, !.rebootExp = FALSE, !.busy = FALSE,
                   !.rbTid = 0, !.rbFired = FALSE, !.rbRearm = FALSE, !.odPending = FALSE], vs)
  ELSE IF e.s = "WaitingForReboot" THEN
    LET vs == Chk("C04", "wfr-in-check", ~c.inCheck)
              \cup Chk("C04", "wfr-unexpected", g.post = "afterResult" /\ g.rebootExp)
    IN V([g EXCEPT !.post = "inWfr", !.inWfr = TRUE, !.rbAllowed = "none"], vs)
  ELSE
    LET vs == Chk("C04", "state-outside-check", c.inCheck)
              \cup Chk("C04", "state-twice", \A i \in 1..Len(c.ann) : c.ann[i] # e.s)
    IN V([g EXCEPT !.c.ann = Append(@, e.s), !.c.tail = PushTail(@, "state")], vs)

LutEq(a, b) == a = b
\* is the observed last-contact time a time inside this check?
LutInCheck(c, lut, e) ==
  /\ IsSome(lut.m) /\ IsSome(lut.w)
  /\ lut.m[1].s >= c.chkTm /\ lut.m[1].s <= e.tm
  /\ (c.jumped \/ (lut.w[1].s >= c.chkTw /\ lut.w[1].s <= e.tw))

StepSched(g, e) ==
  LET c == g.c IN
  IF c.inCheck THEN
    \* the closing ScheduleChange of a check: the outcome is decided here (C08)
    LET contact == (~NoWire(c) /\ LastUc(c).ok)       \* the server answered
        okc == CheckOk(c)
        newFails == IF okc THEN 0 ELSE Inc(g.fails)
        vs == Chk("C08", "last-contact-advanced-without-answer", contact \/ LutEq(e.lut, g.lut))
              \cup Chk("C08", "last-contact-not-updated", ~contact \/ LutInCheck(c, e.lut, e))
              \cup (IF g.unauth /\ ~LutEq(e.lut, g.lut) /\ ~contact THEN {<<"C02", "last-contact-from-unauthenticated">>} ELSE {})
    IN V([g EXCEPT !.lut = e.lut, !.fails = newFails, !.c.tail = PushTail(@, "sched"),
                   !.apps = IF okc THEN MergeApps(@, c.doc) ELSE @], vs)
  ELSE IF g.pingOk THEN
    \* a successful ping advances the last-contact time and announces it
    V([g EXCEPT !.lut = e.lut, !.pingOk = FALSE],
      Chk("C08", "ping-last-contact", IsSome(e.lut.m) /\ e.lut.m[1].s >= g.pingTm /\ e.lut.m[1].s <= e.tm))
  ELSE
    LET vs == Chk("C08", "schedule-event-last-contact", e.lut = g.lut)
              \cup (IF g.w.ph = "wantSched" THEN Chk("C12", "announced-next-time", e.next = Some(g.w.exp)) ELSE {})
    IN V([g EXCEPT !.w.ph = IF @ = "wantSched" THEN "wantArm" ELSE @], vs)

StepPstate(g, e) ==
  LET c == g.c
      g1 == IF g.pp = "maybe" THEN [g EXCEPT !.pp = "persist", !.poll = e.poll, !.pollUnk = FALSE]
            ELSE IF g.pp = "announce"
              THEN V([g EXCEPT !.pp = "persist"], Chk("C07", "announced-value", g.pollUnk \/ e.poll = g.poll))
              ELSE ObservePoll(g, e.poll, "C07")
      g2 == IF c.inCheck THEN [g1 EXCEPT !.c.tail = PushTail(@, "pstate")] ELSE g1
      \* the closing ProtocolStateChange carries the failure count of the finished check
      closing == c.inCheck /\ c.tail # <<>> /\ Last(c.tail) = "sched"
      vs == IF closing /\ ~g.failsUnk
              THEN Chk("C08", "failure-count", e.fails = g.fails)
              ELSE {}
  IN V(g2, vs)

StepResult(g, e) ==
  LET c == g.c
      okc == CheckOk(c)
      exp == ExpectedReports(c)
      sentReps == MapSeq(c.reps, LAMBDA r : r.apps)
      vs4 == Chk("C04", "result-outside-check", c.inCheck)
          \cup Chk("C04", "closing-order", c.tail = <<"sched", "pstate">> \/ (Len(c.tail) = 3 /\ c.tail[2] = "sched" /\ c.tail[3] = "pstate"))
          \cup Chk("C04", "error-iff-not-usable", ("Error" \in Range(c.ann)) <=> ~c.usable)
          \cup Chk("C04", "noupdate-iff", ("NoUpdate" \in Range(c.ann)) <=> (c.usable /\ Offered(c.doc) = <<>>))
          \cup Chk("C04", "deferred-iff", ("Deferred" \in Range(c.ann)) <=> (c.decision = "deferred"))
          \cup Chk("C04", "installing-iff", ("Installing" \in Range(c.ann)) <=> (c.planAns = "err" \/ c.decision = "ok"))
          \cup Chk("C04", "installation-error-iff",
                   ("InstallationError" \in Range(c.ann)) <=> (c.planAns = "err" \/ (c.installCalled /\ HasFailed(c))))
          \cup Chk("C04", "installer-error-events", c.nInsErr = (IF c.installCalled THEN NFailed(c) ELSE 0))
          \cup Chk("C04", "response-announced-iff", c.respEv <=> c.usable)
          \cup Chk("C04", "result-ok-iff", e.ok <=> okc)
          \cup (IF e.ok /\ okc
                  THEN Chk("C04", "result-apps", Len(e.apps) = Len(c.doc.apps)
                              /\ \A i \in 1..Len(e.apps) :
                                   /\ e.apps[i].id = c.doc.apps[i].id
                                   /\ (ExpAction(c, i) = "any" \/ e.apps[i].action = ExpAction(c, i)))
                  ELSE {})
          \cup (IF ~e.ok /\ ~okc THEN Chk("C04", "result-error-class", e.err \in ExpErr(g, c)) ELSE {})
          \* whether a reboot is pending after a clean install is the policy's call: it must have been asked
          \cup Chk("C04", "reboot-pending-not-determined",
                   ~(okc /\ c.decision = "ok" /\ c.installCalled /\ ~HasFailed(c)) \/ c.needed # "none")
      vs6 == Chk("C06", "response-time-count", c.jumped \/ c.nRespTime = Len(c.ucs) + (IF NoWire(c) THEN 1 ELSE 0))
          \cup Chk("C06", "requests-per-check", c.rpcSeen /\ c.rpcCount = Len(c.ucs) + (IF NoWire(c) THEN 1 ELSE 0)
                                                /\ (c.rpcOk <=> (~NoWire(c) /\ LastUc(c).ok)))
          \cup Chk("C06", "must-retry", NoWire(c) \/
                     ~(LastUc(c).retry /\ Len(c.ucs) < 3 /\ ~LastUc(c).pollAfterUnk /\ LastUc(c).pollAfter = None))
      vs2 == IF c.tainted
               THEN Chk("C02", "validation-error-result", ~e.ok /\ e.err = "cupval")
                    \cup Chk("C02", "states-after-unauthenticated", c.ann = <<"Checking", "Error">>)
                    \cup Chk("C02", "failure-reason", c.failReason = "Internal")
               ELSE {}
      \* the download time in an event exists only if the wall clock did not go back during the install
      vs10 == Chk("C10", "reports", IF c.jumped THEN NoDl(sentReps) = NoDl(exp) ELSE sentReps = exp)
          \cup Chk("C10", "lost-count", c.lostSeen = c.lostExp)
      vsf == IF okc THEN Chk("C08", "attempts-metric", c.attCheck) ELSE Chk("C08", "failure-reason-metric", c.failReason = ExpReason(g, c))
      attExp == okc /\ c.installCalled /\ (HasFailed(c) \/ AnyInstalled(c))
      vs18 == Chk("C18", "install-attempts-metric", c.attInst = attExp)
      rebootExp == okc /\ c.decision = "ok" /\ c.installCalled /\ ~HasFailed(c) /\ c.needed = "yes"
  IN V([g EXCEPT !.c.inCheck = FALSE, !.c.nResult = @ + 1,
                 !.post = IF g.mode = "start" THEN "afterResult" ELSE "none",
                 !.rebootExp = rebootExp,
                 !.lastInstallNoFail = okc /\ c.installCalled /\ ~HasFailed(c)],
       vs4 \cup vs6 \cup vs2 \cup vs10 \cup vsf \cup vs18)

StepEv(g, e) ==
  LET c == g.c
      ga == IF g.pp = "announce" /\ e.e # "pstate"
              THEN V([g EXCEPT !.pp = "none"], {<<"C07", "change-not-announced-first">>})
              ELSE g
      \* C13: every progress value the installer reported is delivered before anything else is announced
      g0 == IF e.e # "progress" /\ c.inCheck /\ c.progTaken # c.progRep
              THEN V([ga EXCEPT !.c.progTaken = c.progRep], {<<"C13", "progress-lost">>})
              ELSE ga IN
  CASE e.e = "state" -> StepState(g0, e)
    [] e.e = "sched" -> StepSched(g0, e)
    [] e.e = "pstate" -> StepPstate(g0, e)
    [] e.e = "result" -> StepResult(g0, e)
    [] e.e = "resp" ->
         V([g0 EXCEPT !.c.respEv = TRUE, !.c.tail = PushTail(@, "resp")],
           Chk("C04", "response-outside-check", c.inCheck)
           \cup Chk("C02", "response-event-unauthenticated", ~c.tainted)
           \cup Chk("C04", "response-event-content",
                    ~c.hasDoc \/ (Len(e.apps) = Len(c.doc.apps)
                                  /\ \A i \in 1..Len(e.apps) : e.apps[i].id = c.doc.apps[i].id
                                        /\ e.apps[i].cohort = c.doc.apps[i].cohort)))
    [] e.e = "insterr" ->
         V([g0 EXCEPT !.c.nInsErr = @ + 1, !.c.tail = PushTail(@, "insterr")],
           Chk("C04", "installer-error-after-state", "InstallationError" \notin Range(c.ann)))
    [] e.e = "progress" ->
         V([g0 EXCEPT !.c.progTaken = Append(@, e.p), !.c.tail = PushTail(@, "progress")],
           Chk("C13", "progress-order",
               Len(c.progTaken) < Len(c.progRep) /\ c.progRep[Len(c.progTaken) + 1] = e.p))
    [] OTHER -> g0

(***************************************************************************)
(* HTTP.                                                                   *)
(***************************************************************************)
CupChecks(g, e) ==
  IF g.cup
    THEN Chk("C03", "one-cup2key", e.url.n_cup2key = 1 /\ IsSome(e.url.cup2key) /\ e.url.cup_last)
         \cup Chk("C03", "url-intact", e.url.base_ok)
         \cup (IF IsSome(e.url.cup2key)
                 THEN Chk("C03", "latest-key-id", e.url.cup2key[1].kid = g.kid)
                      \cup Chk("C03", "nonce-shape", e.url.cup2key[1].hex64)
                      \cup Chk("C03", "nonce-fresh", e.url.cup2key[1].nonce \notin g.usedNonces)
                 ELSE {})
         \cup Chk("C03", "metadata-faithful", e.meta.present /\ e.meta.body_eq /\ e.meta.key_eq)
    ELSE Chk("C03", "url-intact", e.url.base_ok /\ e.url.n_cup2key = 0)
NoteNonce(g, e) == IF IsSome(e.url.cup2key) THEN [g EXCEPT !.usedNonces = @ \cup {e.url.cup2key[1].nonce}] ELSE g

ParamChecks(g, e, P) ==
  Chk("C05", "request-source", e.req.src = P.src)
  \cup Chk("C05", "request-interactivity", e.hdr.inter = (IF P.src = "ondemand" THEN "fg" ELSE "bg"))

\* the poll-interval effect of an exchange (C07) and the taint of an unauthenticated one (C02)
AfterExchange(g, a) ==
  IF Authentic(g, a)
    THEN LET x == XraOf(a.xra) IN
         IF x.unk \/ g.pollUnk THEN [g EXCEPT !.pollUnk = TRUE, !.pp = "maybe"]
         ELSE IF x.v # g.poll THEN [g EXCEPT !.poll = x.v, !.pp = "announce"]
         ELSE g
    ELSE IF Unauth(g, a) THEN [g EXCEPT !.unauth = TRUE] ELSE g

StepHttpUc(g, e) ==
  LET c == g.c
      a == e.ans
      k == Len(c.ucs) + 1
      g1 == AfterExchange(g, a)
      rec == [rid |-> e.req.rid, sid |-> e.req.sid, payload |-> e.req.apps, cls |-> a.cls,
              ok |-> ExOk(g, a), unauth |-> Unauth(g, a), retry |-> Retryable(g, a),
              pollAfter |-> g1.poll, pollAfterUnk |-> g1.pollUnk]
      bodyDoc == ExOk(g, a) /\ BodyIsDoc(a)
      vs == Chk("C05", "request-outside-check", c.inCheck)
         \cup Chk("C13", "request-before-checking-taken", c.inCheck)
         \cup CupChecks(g, e)
         \cup ParamChecks(g, e, g.params)
         \cup Chk("C05", "updatecheck-flags",
                  \A i \in 1..Len(e.req.apps) :
                     IsSome(e.req.apps[i].uc) => (e.req.apps[i].uc[1].dis = g.params.dis /\ e.req.apps[i].uc[1].same = g.params.same))
         \cup Chk("C06", "at-most-three", k <= 3)
         \cup (IF k > 1
                 THEN LET p == Last(c.ucs) IN
                      Chk("C06", "retry-only-transient", p.retry)
                      \cup Chk("C06", "no-retry-with-poll-interval", p.pollAfterUnk \/ p.pollAfter = None)
                      \cup Chk("C02", "retry-after-unauthenticated", ~p.unauth)
                      \cup Chk("C06", "backoff-before-retry", c.bo = 2)
                      \cup Chk("C06", "same-session", e.req.sid = p.sid)
                      \cup Chk("C06", "same-payload", e.req.apps = p.payload)
                 ELSE Chk("C06", "session-fresh", e.req.sid \notin g.usedSids))
         \cup Chk("C06", "request-id-fresh", e.req.rid \notin g.usedRids /\ e.req.rid_ok /\ e.req.sid_ok)
         \cup Chk("C09", "request-cohorts",
                  Len(e.req.apps) = Len(g.apps)
                  /\ \A i \in 1..Len(e.req.apps) :
                        /\ e.req.apps[i].id = g.apps[i].id
                        /\ e.req.apps[i].cohort = g.apps[i].cohort
                        /\ IsSome(e.req.apps[i].ping)
                        /\ e.req.apps[i].ping[1].ad = g.apps[i].uc /\ e.req.apps[i].ping[1].rd = g.apps[i].uc)
      g2 == NoteNonce(g1, e)
  IN V([g2 EXCEPT !.usedRids = @ \cup {e.req.rid}, !.usedSids = @ \cup {e.req.sid},
                  !.c.ucs = Append(@, rec), !.c.bo = 0, !.c.sid = e.req.sid,
                  !.c.usable = bodyDoc, !.c.hasDoc = bodyDoc,
                  !.c.doc = IF bodyDoc THEN a.body.doc ELSE c.doc,
                  !.c.tainted = @ \/ Unauth(g, a)], vs)

ReqEvApps(e) == MapSeq(e.req.apps, LAMBDA a : [id |-> a.id, evs |-> a.ev])

StepHttpEv(g, e) ==
  LET c == g.c
      a == e.ans
      i == Len(c.reps) + 1
      delivered == ExOk(g, a)
      g1 == AfterExchange(g, a)
      rec == [apps |-> ReqEvApps(e), ok |-> delivered]
      c1 == [c EXCEPT !.reps = Append(@, rec)]
      vs == Chk("C05", "request-outside-check", c.inCheck)
         \cup CupChecks(g, e)
         \cup ParamChecks(g, e, g.params)
         \cup Chk("C10", "report-session", e.req.sid = c.sid)
         \cup Chk("C06", "request-id-fresh", e.req.rid \notin g.usedRids /\ e.req.rid_ok)
         \cup Chk("C02", "report-after-unauthenticated", ~c.tainted)
         \cup Chk("C10", "lost-count-before-next", c.lostSeen = c.lostExp)
      g2 == NoteNonce(g1, e)
  IN V([g2 EXCEPT !.usedRids = @ \cup {e.req.rid},
                  !.c.reps = Append(@, rec),
                  !.c.lostExp = IF delivered THEN @ ELSE @ + LostFor(c1, i)], vs)

StepHttpPing(g, e) ==
  LET a == e.ans
      g1 == AfterExchange(g, a)
      okp == ExOk(g, a) /\ BodyIsDoc(a)
      vs == CupChecks(g, e)
         \cup Chk("C05", "ping-outside-reboot-wait", g.inWfr)
         \cup ParamChecks(g, e, NoParams)
         \cup Chk("C06", "request-id-fresh", e.req.rid \notin g.usedRids /\ e.req.rid_ok)
         \cup Chk("C09", "ping-cohorts",
                  Len(e.req.apps) = Len(g.apps)
                  /\ \A i \in 1..Len(e.req.apps) :
                        /\ e.req.apps[i].id = g.apps[i].id
                        /\ e.req.apps[i].cohort = g.apps[i].cohort
                        /\ IsSome(e.req.apps[i].ping)
                        /\ e.req.apps[i].ping[1].ad = g.apps[i].uc /\ e.req.apps[i].ping[1].rd = g.apps[i].uc)
      g2 == NoteNonce(g1, e)
      vs2 == Chk("C12", "ping-before-timers", g.w.ph = "armed" /\ g.w.untilFired /\ (g.w.forTid = 0 \/ g.w.forFired))
             \cup Chk("C06", "ping-session-fresh", e.req.sid \notin g.usedSids)
  IN V([g2 EXCEPT !.usedRids = @ \cup {e.req.rid}, !.usedSids = @ \cup {e.req.sid},
                  \* the failure count changes after the header step has been persisted
                  !.fails = IF g1.pp # "none" THEN @ ELSE IF okp THEN 0 ELSE Inc(@),
                  !.pingFx = IF g1.pp # "none" THEN (IF okp THEN "zero" ELSE "inc") ELSE "none",
                  !.apps = IF okp THEN MergeApps(@, a.body.doc) ELSE @,
                  !.pingOk = okp, !.pingTm = e.tm, !.w = WaitInit], vs \cup vs2)

(***************************************************************************)
(* Metrics, timers, policy, installer, storage.                            *)
(***************************************************************************)
StepMet(g, e) ==
  LET c == g.c IN
  CASE e.m = "resp_time" -> [g EXCEPT !.c.nRespTime = @ + 1]
    [] e.m = "rpc" -> V([g EXCEPT !.c.rpcSeen = TRUE, !.c.rpcCount = e.count, !.c.rpcOk = e.ok],
                        Chk("C06", "requests-per-check-once", ~c.rpcSeen))
    [] e.m = "lost" -> [g EXCEPT !.c.lostSeen = @ + 1]
    [] e.m = "fail_reason" -> [g EXCEPT !.c.failReason = e.r]
    [] e.m = "att_install" ->
         \* C18: consecutive failed install attempts, reported with every install that failed or installed something
         LET okI == c.installCalled /\ ~HasFailed(c) IN
         V([g EXCEPT !.c.attInst = TRUE, !.fi = IF okI THEN 0 ELSE Inc(@)],
           Chk("C18", "install-attempts-once", ~c.attInst)
           \cup Chk("C18", "install-attempts-successful", e.ok = okI)
           \cup (IF g.fiUnk THEN {} ELSE Chk("C18", "install-attempts-count", e.count = Inc(g.fi))))
    [] e.m = "waited" ->
         \* C18: waited-for-reboot = finish .. start of this state machine, exactly once, only on the target version
         LET dns == 123456789 - g.finish.ns
             borrow == IF dns < 0 THEN 1 ELSE 0
             es == (e.tw - g.finish.s) - (e.tm - g.startTm) - borrow
             ens == IF dns < 0 THEN dns + 1000000000 ELSE dns IN
         V([g EXCEPT !.wfrPending = FALSE, !.wfrDone = TRUE],
           Chk("C18", "waited-only-on-target-version", g.wfrPending)
           \cup Chk("C18", "waited-once", ~g.wfrDone)
           \cup (IF g.c.jumped THEN {} ELSE Chk("C18", "waited-duration", e.d = [s |-> es, ns |-> ens])))
    [] e.m = "att_check" ->
         V([g EXCEPT !.c.attCheck = TRUE],
           IF g.failsUnk THEN {} ELSE Chk("C08", "attempts-to-successful-check", e.count = Inc(g.fails)))
    [] OTHER -> g

\* back-off window after the k-th failed attempt: 2^(k-1) s +/- 500 ms
InWindow(k, ms) == LET base == CASE k = 1 -> 1000 [] k = 2 -> 2000 [] OTHER -> 4000
                   IN ms >= base - 500 /\ ms < base + 500

ArmMatches(g, e) ==
  IF e.t = "until" THEN e.at = g.w.exp.time ELSE IsSome(g.w.exp.minwait) /\ e.d = g.w.exp.minwait[1]

StepArmWait(g, e) ==
  \* timers of a wait: [wait_for(minimum wait)] then wait_until(time), exactly as the policy said
  IF g.w.ph = "wantArm" THEN
    IF e.t = "for" /\ g.w.forTid = 0 /\ IsSome(g.w.exp.minwait)
      THEN V([g EXCEPT !.w.forTid = e.tid], Chk("C12", "minimum-wait-timer", ArmMatches(g, e)))
    ELSE IF e.t = "until"
      THEN V([g EXCEPT !.w.untilTid = e.tid, !.w.ph = "armed"],
             Chk("C12", "time-bound-timer", ArmMatches(g, e))
             \cup Chk("C12", "minimum-wait-armed", IsSome(g.w.exp.minwait) <=> g.w.forTid # 0))
    ELSE V(g, {<<"C12", "unexpected-timer">>})
  ELSE IF g.inWfr /\ e.t = "for" /\ e.d = [s |-> 1800, ns |-> 0]
    THEN V([g EXCEPT !.rbTid = e.tid, !.rbFired = FALSE, !.rbRearm = FALSE],
           Chk("C12", "reboot-timer-rearm", g.rbTid = 0 \/ g.rbRearm))
  ELSE V(g, {<<"C12", "unexpected-timer">>})

StepArm(g, e) ==
  LET c == g.c IN
  IF ~c.inCheck THEN StepArmWait(g, e)
  ELSE IF c.inCheck
    THEN V([g EXCEPT !.c.bo = 1],
           Chk("C06", "backoff-is-wait-for", e.t = "for")
           \cup Chk("C06", "backoff-after-failed-attempt", c.ucs # <<>> /\ c.bo = 0)
           \cup (IF e.t = "for" /\ c.ucs # <<>> THEN Chk("C06", "backoff-window", InWindow(Len(c.ucs), e.ms)) ELSE {}))
    ELSE g

StepFire(g, e) ==
  IF g.c.inCheck /\ g.c.bo = 1 THEN [g EXCEPT !.c.bo = 2]
  ELSE [g EXCEPT !.w.untilFired = @ \/ (e.tid = g.w.untilTid), !.w.forFired = @ \/ (e.tid = g.w.forTid),
                 !.rbFired = @ \/ (e.tid = g.rbTid /\ g.rbTid # 0)]

Positive(d) == d \in {"ok", "okdeferred"}

StepPolCheck(g, e) ==
  LET a == e.ans
      src == IF a.src = "same" THEN e.src ELSE a.src
      g1 == ObservePoll(g, e.ps.poll, "C07")
      vs == Chk("C04", "policy-check-in-check", ~g.c.inCheck)
         \cup (IF g.failsUnk THEN {} ELSE Chk("C08", "policy-sees-failure-count", e.ps.fails = g.fails))
         \cup Chk("C08", "policy-sees-last-contact", e.sched.lut = g.lut)
         \cup Chk("C09", "policy-sees-apps", e.apps = g.apps)
         \cup (IF g.ctlOut = {}
                 THEN Chk("C12", "check-before-timers", g.w.ph = "armed" /\ g.w.untilFired /\ (g.w.forTid = 0 \/ g.w.forFired))
                      \cup Chk("C12", "scheduled-check-options", e.src = "scheduledtask")
                 ELSE {})
  IN V([g1 EXCEPT !.consent = Positive(a.d), !.busy = Positive(a.d), !.w = WaitInit,
                  !.nPolCheck = @ + 1, !.lastPolCheck = [d |-> a.d, src |-> e.src, n |-> g.nPolCheck + 1],
                  !.params = [src |-> src, dis |-> a.dis, same |-> a.same],
                  !.optSrc = e.src, !.odTaken = (e.src = "ondemand"),
                  !.fails = IF g.failsUnk THEN e.ps.fails ELSE @, !.failsUnk = FALSE], vs)

ExpTiming(e) ==
  LET a == e.ans
      tw == IF Has(a, "abs") /\ IsSome(a.abs) THEN a.abs[1] ELSE e.tw + a.dt
      tm == IF Has(a, "abs") /\ IsSome(a.abs) THEN a.abs[1] ELSE e.tm + a.dt IN
  [time |-> [w |-> IF a.kind \in {"wall", "both"} THEN Some([s |-> tw, ns |-> 123456789]) ELSE None,
             m |-> IF a.kind \in {"mono", "both"} THEN Some([s |-> tm, ns |-> 0]) ELSE None],
   minwait |-> IF Has(a, "mwms") /\ IsSome(a.mwms)
                 THEN Some([s |-> a.mwms[1] \div 1000, ns |-> (a.mwms[1] % 1000) * 1000000])
               ELSE IF IsSome(a.minwait) THEN Some([s |-> a.minwait[1], ns |-> 0]) ELSE None]

StepPolNext(g, e) ==
  LET g1 == [ObservePoll(g, e.ps.poll, "C07") EXCEPT !.w = [WaitInit EXCEPT !.ph = "wantSched", !.exp = ExpTiming(e)]]
      vs == (IF g.failsUnk THEN {} ELSE Chk("C08", "policy-sees-failure-count", e.ps.fails = g.fails))
         \cup Chk("C08", "policy-sees-last-contact", e.sched.lut = g.lut)
         \cup Chk("C09", "policy-sees-apps", e.apps = g.apps)
         \cup (IF g.wfrPending /\ ~g.inWfr /\ ~g.c.jumped
                 THEN Chk("C18", "waited-not-reported",
                          \* still pending is fine only if the clocks are inconsistent: finish in the future
                          \* or less wall time than monotonic time has passed since the start
                          LET dns == 123456789 - g.finish.ns
                              ws == (e.tw - g.finish.s) - (IF dns < 0 THEN 1 ELSE 0) IN
                          ws < 0 \/ ws < (e.tm - g.startTm))
                 ELSE {})
  IN V([g1 EXCEPT !.fails = IF g.failsUnk THEN e.ps.fails ELSE @, !.failsUnk = FALSE], vs)

StepPlan(g, e) ==
  LET c == g.c
      okp == IsSome(e.ans.ok)
      vs == Chk("C05", "plan-outside-check", c.inCheck)
         \cup Chk("C02", "plan-after-unauthenticated", ~c.tainted)
         \cup Chk("C04", "plan-only-when-offered", c.usable /\ Offered(c.doc) # <<>>)
         \cup Chk("C05", "plan-params", e.params.src = g.params.src /\ e.params.dis = g.params.dis /\ e.params.same = g.params.same)
         \cup (IF g.cup THEN Chk("C03", "installer-metadata", e.meta /\ e.meta_eq /\ e.wire_eq /\ e.sig /\ e.sig_eq /\ e.bytes_eq)
                        ELSE Chk("C03", "installer-metadata", ~e.meta /\ ~e.sig /\ e.bytes_eq))
  IN V([g EXCEPT !.c.planAns = IF okp THEN "ok" ELSE "err", !.c.planId = IF okp THEN e.ans.ok[1] ELSE ""], vs)

StepPolStart(g, e) ==
  LET c == g.c
      vs == Chk("C05", "decision-for-created-plan", c.inCheck /\ c.planAns = "ok" /\ e.plan = c.planId) IN
  V([g EXCEPT !.c.decision = e.ans], vs)

StepInstBegin(g, e) ==
  LET c == g.c
      vs == Chk("C05", "install-without-consent", c.inCheck /\ c.decision = "ok" /\ e.plan = c.planId)
         \cup Chk("C02", "install-after-unauthenticated", ~c.tainted)
         \cup Chk("C13", "install-before-installing-taken", "Installing" \in Range(c.ann))
         \cup Chk("C05", "install-twice", ~c.installCalled)
         \cup (IF g.faulty THEN {} ELSE Chk("C18", "first-seen-recorded", g.fsPlan = c.planId))
  IN V([g EXCEPT !.c.installCalled = TRUE, !.fsWritten = FALSE], vs)

StepInstall(g, e) == [g EXCEPT !.c.results = e.ans.results]

StepRbNeeded(g, e) ==
  LET c == g.c
      vs == Chk("C05", "reboot-needed-only-after-clean-install", c.inCheck /\ c.installCalled /\ ~HasFailed(c))
         \cup (IF g.faulty THEN {}
               ELSE Chk("C18", "finish-time-committed-before-reboot", g.finSet /\ Has(g.snap, "update_finish_time"))
                    \cup Chk("C18", "target-version-committed-before-reboot",
                             IF IsOfferedId(c, g.sys)
                               THEN Has(g.snap, "target_version") /\ g.snap["target_version"] = g.tvSet /\ g.tvSet # ""
                               ELSE g.tvSet = "")) IN
  V([g EXCEPT !.c.needed = IF e.ans THEN "yes" ELSE "no", !.finSet = FALSE, !.tvSet = ""], vs)

\* Which requests has the machine taken?  A reply is logged only after the machine's next blocking point, so at the
\* line of a reboot question an on-demand request that prompted it is still outstanding in the log; one that was sent
\* while the machine was blocked elsewhere (delivering an event, say) may not have been taken yet.  Hence:
\*   asked as on-demand  => the check's options were on-demand, or an on-demand request is known taken or outstanding;
\*   asked as scheduled  => no on-demand request is KNOWN to have been taken in this check / wait.
OutstandingOd(g) == \E i \in 1..Len(g.ctlSrc) : g.ctlSrc[i].req \in g.ctlOut /\ g.ctlSrc[i].src = "ondemand"
StepRbAllowed(g, e) ==
  LET first == g.rbAllowed = "none" /\ g.rbTid = 0
      byTimer == g.rbFired
      byDemand == OutstandingOd(g)
      vs == Chk("C05", "reboot-question-outside-wait", g.inWfr)
         \cup Chk("C12", "reboot-question-unprompted", first \/ byTimer \/ byDemand)
         \cup Chk("C11", "reboot-question-source",
                  IF e.src = "ondemand" THEN g.odTaken \/ OutstandingOd(g) ELSE ~g.odTaken)
  \* when the timer has fired AND an on-demand request is waiting, the select takes them in either order and asks
  \* twice: a question that a request accounts for leaves the timer's prompt standing
  IN V([g EXCEPT !.rbAllowed = IF e.ans THEN "yes" ELSE "no",
                 !.rbFired = IF byDemand /\ ~first THEN @ ELSE FALSE,
                 !.rbRearm = @ \/ (~first /\ byTimer /\ ~e.ans)], vs)

StepReboot(g, e) ==
  V([g EXCEPT !.rbAllowed = "none"],
    Chk("C05", "reboot-without-consent", g.inWfr /\ g.lastInstallNoFail /\ g.rbAllowed = "yes")
    \cup Chk("C13", "reboot-before-waiting-taken", g.inWfr))

StepSt(g, e) ==
  LET g1 == IF e.ans = "err" THEN [g EXCEPT !.faulty = TRUE] ELSE g
      okw == e.ans = "ok" IN
  IF e.k = "st.commit" THEN
    LET v7 == IF g.pp = "persist" /\ ~g1.faulty /\ ~g.pollUnk
                THEN Chk("C07", "committed-value",
                         IF IsSome(g.poll)
                           THEN Has(e.snap, "server_dictated_poll_interval")
                                /\ e.snap["server_dictated_poll_interval"].exact
                                /\ e.snap["server_dictated_poll_interval"].s = g.poll[1]
                           ELSE ~Has(e.snap, "server_dictated_poll_interval"))
                ELSE {}
        \* C08: every commit leaves the context keys equal to ONE in-memory snapshot
        v8 == IF CtxKnown(g1)
                THEN IF g.persisting
                       THEN Chk("C08", "commit-is-current-context", Restrict(e.snap, CtxKeys) = ExpCtx(g))
                       ELSE Chk("C08", "commit-keeps-context", Restrict(e.snap, CtxKeys) = Restrict(g.snap, CtxKeys))
                ELSE {}
        fx == IF g.pp = "persist" THEN g.pingFx ELSE "none"   \* (ApplyPingFx, at the commit that ends the header step)
    IN V([g1 EXCEPT !.pp = IF @ = "persist" THEN "none" ELSE @,
                    !.fails = CASE fx = "inc" -> Inc(@) [] fx = "zero" -> 0 [] OTHER -> @,
                    !.pingFx = IF g.pp = "persist" THEN "none" ELSE @,
                    !.snap = IF okw THEN e.snap ELSE @, !.persisting = FALSE], v7 \cup v8)
  ELSE IF e.key = "last_update_time" THEN [g1 EXCEPT !.persisting = TRUE]
  ELSE IF e.key = "update_first_seen_time" /\ e.k = "st.set" THEN
    \* C18: first-seen is (re)written only for a plan different from the recorded one
    V(g1, Chk("C18", "first-seen-reset", g.c.inCheck /\ g.c.planAns = "ok" /\ (g.fsWritten \/ g.faulty)))
  ELSE IF e.key = "install_plan_id" /\ e.k = "st.set" THEN
    V([g1 EXCEPT !.fsPlan = IF okw THEN e.v ELSE @, !.fsWritten = TRUE],
      Chk("C18", "first-seen-reset", g.c.inCheck /\ g.c.planAns = "ok" /\ e.v = g.c.planId /\ (g.fsPlan # e.v \/ g.faulty)))
  ELSE IF e.key = "update_finish_time" /\ e.k = "st.set" THEN
    V([g1 EXCEPT !.finSet = TRUE],
      Chk("C18", "finish-time-only-after-clean-install", g.c.inCheck /\ g.c.installCalled /\ ~HasFailed(g.c)))
  ELSE IF e.key = "target_version" /\ e.k = "st.set" THEN
    V([g1 EXCEPT !.tvSet = e.v],
      Chk("C18", "target-version-is-system-app",
          g.c.inCheck /\ IsOfferedId(g.c, g.sys)
          /\ e.v = (IF NextVerOf(g.c, g.sys) = "None" THEN "UNKNOWN" ELSE NextVerOf(g.c, g.sys))))
  ELSE IF e.key \in {"update_finish_time", "target_version"} /\ e.k = "st.rm" THEN
    V(g1, Chk("C18", "record-cleared-only-after-report", g.wfrDone))
  ELSE g1

\* while a poll-interval change awaits its announcement and commit, nothing else may happen (C07)
Interrupts(e) == e.k \in {"http.uc", "http.ev", "http.ping", "tm.arm", "inst.plan", "inst.begin", "inst.install",
                          "inst.reboot", "pol.next", "pol.check", "pol.start", "pol.rbneeded", "pol.rballowed"}

StepProg(g, e) == [g EXCEPT !.c.progRep = Append(@, e.p)]

(***************************************************************************)
(* Control requests (C11).                                                 *)
(***************************************************************************)
StepCtlSend(g, e) ==
  \* a request that arrives while a check or reboot wait is in progress upgrades the options
  LET up == (g.busy \/ g.inWfr \/ g.c.inCheck) /\ e.src = "ondemand" IN
  [g EXCEPT !.ctlOut = @ \cup {e.req},
            !.ctlSrc = Append(@, [req |-> e.req, src |-> e.src, busyAtSend |-> g.busy, nPol |-> g.nPolCheck,
                                  dead |-> g.dead, run |-> g.runNo]),
            !.optSrc = IF up THEN "ondemand" ELSE @,
            !.odPending = @ \/ (g.inWfr /\ e.src = "ondemand")]

CtlOf(g, req) == LET i == CHOOSE i \in 1..Len(g.ctlSrc) : g.ctlSrc[i].req = req IN g.ctlSrc[i]

StepCtlReply(g, e) ==
  LET r == CtlOf(g, e.req)
      pc == g.lastPolCheck
      vs == Chk("C11", "reply-once", e.req \in g.ctlOut)
         \cup (CASE e.ans = "started" ->
                      Chk("C11", "started-truthful", pc.n > r.nPol /\ Positive(pc.d) /\ pc.src = r.src /\ g.servedAt # pc.n)
                 [] e.ans = "throttled" ->
                      Chk("C11", "throttled-truthful", pc.n > r.nPol /\ ~Positive(pc.d) /\ pc.d # "none" /\ pc.src = r.src /\ g.servedAt # pc.n)
                 [] e.ans = "already" ->
                      Chk("C11", "already-truthful", g.busy \/ g.inWfr \/ g.c.inCheck \/ g.post # "none")
                 [] e.ans = "gone" ->
                      Chk("C11", "gone-truthful", g.dead \/ r.run < g.runNo)
                 [] OTHER -> {<<"C11", "unknown-reply">>})
  IN V([g EXCEPT !.ctlOut = @ \ {e.req},
                 !.odTaken = @ \/ (e.ans = "already" /\ r.src = "ondemand"),
                 !.servedAt = IF e.ans \in {"started", "throttled"} THEN pc.n ELSE @], vs)

StepEnd(g, e) ==
  V(g, Chk("C11", "request-never-answered", g.ctlOut = {})
       \cup Chk("C14", "check-without-result", ~g.c.inCheck \/ g.cut \/ g.panicked))

GhostStep0(g, e) ==
  CASE e.k = "cfg" -> StepCfg(g, e)
    [] e.k = "restart" -> StepRestart(g, e)
    [] e.k = "ev" -> StepEv(g, e)
    [] e.k = "http.uc" -> StepHttpUc(g, e)
    [] e.k = "http.ev" -> StepHttpEv(g, e)
    [] e.k = "http.ping" -> StepHttpPing(g, e)
    [] e.k = "met" -> StepMet(g, e)
    [] e.k = "tm.arm" -> StepArm(g, e)
    [] e.k = "tm.fire" -> StepFire(g, e)
    [] e.k = "pol.check" -> StepPolCheck(g, e)
    [] e.k = "pol.next" -> StepPolNext(g, e)
    [] e.k = "pol.start" -> StepPolStart(g, e)
    [] e.k = "pol.rbneeded" -> StepRbNeeded(g, e)
    [] e.k = "pol.rballowed" -> StepRbAllowed(g, e)
    [] e.k = "inst.plan" -> StepPlan(g, e)
    [] e.k = "inst.begin" -> StepInstBegin(g, e)
    [] e.k = "inst.install" -> StepInstall(g, e)
    [] e.k = "inst.reboot" -> StepReboot(g, e)
    [] e.k = "inst.prog" -> StepProg(g, e)
    [] e.k \in {"st.set", "st.rm", "st.commit"} -> StepSt(g, e)
    [] e.k = "ctl.send" -> StepCtlSend(g, e)
    [] e.k = "ctl.reply" -> StepCtlReply(g, e)
    [] e.k = "end" -> StepEnd(g, e)
    [] e.k = "cupd" -> [g EXCEPT !.c.buildFail = TRUE]
    [] e.k \in {"cut", "dropstream"} -> [g EXCEPT !.cut = TRUE, !.dead = TRUE]   \* the machine is (about to be) dropped
    [] e.k = "clock" -> [g EXCEPT !.c.jumped = TRUE]
    [] e.k = "panic" -> V([g EXCEPT !.panicked = TRUE], {<<"C14", "panic">>})
    [] e.k = "hang" -> V(g, IF e.what = "runaway" THEN {<<"C14", "hang">>} ELSE {<<"C13", "lost-wakeup">>, <<"C14", "hang">>})
    [] e.k = "crash" -> [g EXCEPT !.dead = TRUE, !.c = CheckInit, !.pp = "none"]
    [] e.k = "ev.end" -> V([g EXCEPT !.dead = TRUE],
                           Chk("C04", "stream-ends-in-check", ~g.c.inCheck)
                           \cup (IF CtxKnown(g) /\ g.mode = "oneshot" /\ ~g.invalid
                                   THEN Chk("C08", "durable-at-stream-end", Restrict(g.snap, CtxKeys) = ExpCtx(g))
                                        \cup Chk("C09", "apps-durable-at-stream-end", AppsCommitted(g, g.snap))
                                   ELSE {})
                           \cup Chk("C04", "one-shot-one-result", g.mode # "oneshot" \/ g.invalid \/ g.c.nResult = 1))
    [] OTHER -> g

\* C14: what must not depend on storage health - the requests sent and the events announced
Proj(e) ==
  IF e.k \in {"http.uc", "http.ev", "http.ping"} THEN <<e.k, e.req, e.hdr>>
  ELSE IF e.e = "state" THEN <<"state", e.s>>
  ELSE IF e.e = "pstate" THEN <<"pstate", e.poll, e.fails>>
  ELSE IF e.e = "result" THEN <<"result", e.ok, e.err, e.apps>>
  ELSE IF e.e = "progress" THEN <<"progress", e.p>>
  ELSE IF e.e = "resp" THEN <<"resp", e.apps>>
  ELSE <<e.e>>
Projected(e) == e.k \in {"http.uc", "http.ev", "http.ping", "ev"}

Transparent(g, e) ==
  IF Projected(e) THEN
    LET p == Proj(e)
        n == Len(g.cur) + 1 IN
    V([g EXCEPT !.cur = Append(@, p)],
      IF g.twin THEN Chk("C14", "storage-failure-changed-behaviour", n <= Len(g.ref) /\ g.ref[n] = p) ELSE {})
  ELSE IF e.k = "end" /\ g.twin /\ ~g.panicked
    THEN V(g, Chk("C14", "storage-failure-cut-behaviour-short", Len(g.cur) = Len(g.ref)))
  ELSE g

ApplyPingFx(g) == [g EXCEPT !.fails = CASE g.pingFx = "inc" -> Inc(@) [] g.pingFx = "zero" -> 0 [] OTHER -> @,
                            !.pingFx = "none"]
Neutral(e) == e.k \in {"cupv", "met", "ctl.send", "ctl.reply", "ctl.drop", "tm.fire", "clock", "hold"}

GhostStep(g, e) ==
  LET ga == IF g.pp = "maybe" /\ ~Neutral(e) /\ ~(e.k = "ev" /\ e.e = "pstate")
              THEN ApplyPingFx([g EXCEPT !.pp = "none"])     \* the unconstrained header changed nothing
              ELSE g
      g0 == IF ga.pp \in {"announce", "persist"} /\ Interrupts(e)
              THEN V([ga EXCEPT !.pp = "none"], {<<"C07", "flow-continued-before-commit">>})
              ELSE ga
      \* C13: once every timer of a wait has fired the machine has been woken and must act (ask the policy, ping)
      \* before the environment does anything else; C12: a wait whose schedule was announced gets its timers
      \* (a consumer that is being held back has not let the machine run yet)
      g1 == IF e.k \in EnvKinds /\ ~g0.opPend /\ ~g0.dead /\ ~g0.held /\ g0.w.ph = "armed" /\ g0.w.untilFired
                 /\ (g0.w.forTid = 0 \/ g0.w.forFired) /\ g0.ctlOut = {}
              THEN V(g0, {<<"C13", "wait-over-nothing-happened">>})
              ELSE IF g0.w.ph = "wantArm" /\ ~g0.dead /\ ~Neutral(e) /\ e.k # "tm.arm"
                      /\ ~(e.k \in {"crash", "cut", "end", "dropstream", "ctl.nohandle", "tm.nofire"})
                THEN V([g0 EXCEPT !.w.ph = "none"], {<<"C12", "timers-not-armed">>})
              ELSE g0
      g2 == Transparent(GhostStep0(g1, e), e)
  IN [g2 EXCEPT !.w = IF e.k = "crash" THEN WaitInit ELSE @,
                !.held = IF e.k = "hold" THEN TRUE ELSE IF e.k \in EnvKinds \cup {"ctl.reply"} THEN g2.held ELSE FALSE,
                !.opPend = IF e.k \in GatedKinds THEN TRUE
                           ELSE IF e.k \in {"crash", "restart", "cfg"} THEN FALSE
                           ELSE IF e.k \in EnvKinds \cup {"ctl.reply"} THEN g2.opPend
                           ELSE FALSE]

Props == {"C02", "C03", "C04", "C05", "C06", "C07", "C08", "C09", "C10", "C11", "C12", "C13", "C14", "C18"}
ViolOf(g, p) == {v \in g.viol : v[1] = p}
=============================================================================
