SPECIFICATION Spec
CONSTANT MaxOps = 4
INVARIANT Laws
INVARIANT Emit
CHECK_DEADLOCK FALSE
