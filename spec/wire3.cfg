SPECIFICATION Spec
CONSTANT MaxOps = 3
INVARIANT Laws
INVARIANT Emit
CHECK_DEADLOCK FALSE
