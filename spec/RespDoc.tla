------------------------------ MODULE RespDoc ------------------------------
(***************************************************************************)
(* C16 - the Omaha v3 response grammar as a generator.  A document is a    *)
(* JSON tree (records / tuples); variants are made by editing base         *)
(* documents at a path: removing a field, setting it to null, giving it a  *)
(* wrong type or a boundary value, adding extension attributes.  The       *)
(* grammar knowledge is in the tables below: which paths are required,     *)
(* which optional, what type each has.  For every variant the model says   *)
(* whether the parser must accept it; an accepted document must decode to  *)
(* exactly what it says (null = absent), and its full URLs are every       *)
(* codebase joined with every package name, in order.                      *)
(* TLC has neither null nor 64-bit integers: "@NULL", "@U64:n", "@NUM:x"   *)
(* are placeholders that the harness substitutes textually.                *)
(***************************************************************************)
EXTENDS Integers, Sequences, FiniteSets, TLC, Json

K(k) == [k |-> k, i |-> 0]          \* path step: object key
I(i) == [k |-> "", i |-> i]         \* path step: array index

RECURSIVE Edit(_, _, _, _)
Edit(t, path, kind, val) ==
  LET st == Head(path) IN
  IF Len(path) = 1
    THEN IF st.i = 0
           THEN IF kind = "remove" THEN [k \in (DOMAIN t) \ {st.k} |-> t[k]]
                ELSE [k \in (DOMAIN t) \cup {st.k} |-> IF k = st.k THEN val ELSE t[k]]
           ELSE IF kind = "remove" THEN SubSeq(t, 1, st.i - 1) \o SubSeq(t, st.i + 1, Len(t))
                ELSE [t EXCEPT ![st.i] = val]
    ELSE IF st.i = 0 THEN [t EXCEPT ![st.k] = Edit(t[st.k], Tail(path), kind, val)]
         ELSE [t EXCEPT ![st.i] = Edit(t[st.i], Tail(path), kind, val)]

(***************************************************************************)
(* Base documents.                                                         *)
(***************************************************************************)
Pkg(n) == [name |-> n, required |-> TRUE, size |-> 1234, hash |-> "h1", hash_sha256 |-> "h256", fp |-> "fp-" \o n]
Act(e) == [event |-> e, run |-> "run-" \o e]
FullApp == [appid |-> "app-a", status |-> "ok", cohort |-> "c1", cohorthint |-> "", cohortname |-> "stable",
            ping |-> [status |-> "ok"], event |-> <<[status |-> "ok"], [status |-> "restricted"]>>,
            updatecheck |-> [status |-> "ok", info |-> "note",
                             urls |-> [url |-> <<[codebase |-> "http://u1/"], [codebase |-> "https://u2/x/"]>>],
                             manifest |-> [version |-> "2.0.0.1",
                                           actions |-> [action |-> <<Act("install"), Act("postinstall")>>],
                                           packages |-> [package |-> <<Pkg("p1"), Pkg("p2")>>]]]]
SmallApp == [appid |-> "app-b", status |-> "error-unknownApplication"]
NoUpApp == [appid |-> "app-c", status |-> "ok", updatecheck |-> [status |-> "noupdate"]]
B1 == [response |-> [protocol |-> "3.0", server |-> "prod", daystart |-> [elapsed_days |-> 6000, elapsed_seconds |-> 86399],
                     app |-> <<FullApp>>]]
B2 == [response |-> [protocol |-> "3.0", app |-> <<NoUpApp, SmallApp>>]]
B3 == [response |-> [protocol |-> "3.0", app |-> <<>>]]
Bases == [b1 |-> B1, b2 |-> B2, b3 |-> B3]

R == <<K("response")>>
A1 == R \o <<K("app"), I(1)>>
UC == A1 \o <<K("updatecheck")>>
MF == UC \o <<K("manifest")>>
P1 == MF \o <<K("packages"), K("package"), I(1)>>
AC1 == MF \o <<K("actions"), K("action"), I(1)>>
U1 == UC \o <<K("urls"), K("url"), I(1)>>

\* the grammar of b1: <<path, type>>; required paths make the document invalid when absent or null
RequiredB1 == {<<R \o <<K("protocol")>>, "str">>, <<R \o <<K("app")>>, "arr">>, <<A1 \o <<K("appid")>>, "str">>,
               <<A1 \o <<K("status")>>, "str">>, <<UC \o <<K("status")>>, "str">>, <<UC \o <<K("urls"), K("url")>>, "arr">>,
               <<U1 \o <<K("codebase")>>, "str">>, <<MF \o <<K("version")>>, "str">>, <<MF \o <<K("actions")>>, "obj">>,
               <<MF \o <<K("actions"), K("action")>>, "arr">>, <<MF \o <<K("packages")>>, "obj">>,
               <<MF \o <<K("packages"), K("package")>>, "arr">>, <<P1 \o <<K("name")>>, "str">>,
               <<P1 \o <<K("required")>>, "bool">>, <<P1 \o <<K("fp")>>, "str">>,
               <<A1 \o <<K("ping"), K("status")>>, "str">>, <<A1 \o <<K("event"), I(2), K("status")>>, "str">>,
               <<<<K("response")>>, "obj">>}
OptionalB1 == {<<R \o <<K("server")>>, "str">>, <<R \o <<K("daystart")>>, "obj">>, <<R \o <<K("daystart"), K("elapsed_days")>>, "num">>,
               <<R \o <<K("daystart"), K("elapsed_seconds")>>, "num">>, <<A1 \o <<K("cohort")>>, "str">>,
               <<A1 \o <<K("cohorthint")>>, "str">>, <<A1 \o <<K("cohortname")>>, "str">>, <<A1 \o <<K("ping")>>, "obj">>,
               <<A1 \o <<K("updatecheck")>>, "obj">>, <<A1 \o <<K("event")>>, "arr">>, <<UC \o <<K("info")>>, "str">>,
               <<UC \o <<K("urls")>>, "obj">>, <<UC \o <<K("manifest")>>, "obj">>, <<AC1 \o <<K("event")>>, "str">>,
               <<AC1 \o <<K("run")>>, "str">>, <<P1 \o <<K("size")>>, "num">>, <<P1 \o <<K("hash")>>, "str">>,
               <<P1 \o <<K("hash_sha256")>>, "str">>}
\* Edit values are named by tags (a TLC set cannot hold values of different types); ValOf gives the value.
Wrong(ty) == "wrong:" \o ty
ValOf(tag) ==
  CASE tag = "wrong:str" -> 5 [] tag = "wrong:num" -> "seven" [] tag = "wrong:bool" -> "true" [] tag = "wrong:obj" -> 5
    [] tag = "wrong:arr" -> "x"
    [] tag = "i0" -> 0 [] tag = "i1" -> 1 [] tag = "i7" -> 7 [] tag = "true" -> TRUE [] tag = "false" -> FALSE
    [] tag = "emptyarr" -> <<>> [] tag = "obj" -> [a |-> <<1, 2>>] [] tag = "empty" -> ""
    [] OTHER -> tag          \* every other tag is the string value itself (placeholders included)

\* boundary / special values: <<path, value, valid>>
Specials ==
  { <<P1 \o <<K("size")>>, "i0", TRUE>>, <<P1 \o <<K("size")>>, "@U64:2147483648", TRUE>>, <<P1 \o <<K("size")>>, "@U64:4294967296", TRUE>>,
    <<P1 \o <<K("size")>>, "@U64:9007199254740993", TRUE>>, <<P1 \o <<K("size")>>, "@U64:18446744073709551615", TRUE>>,
    <<P1 \o <<K("size")>>, "@U64:18446744073709551616", FALSE>>, <<P1 \o <<K("size")>>, "@NUM:-1", FALSE>>,
    <<P1 \o <<K("size")>>, "@NUM:1.5", FALSE>>,
    <<R \o <<K("daystart"), K("elapsed_days")>>, "i0", TRUE>>, <<R \o <<K("daystart"), K("elapsed_days")>>, "@U64:4294967295", TRUE>>,
    <<R \o <<K("daystart"), K("elapsed_days")>>, "@U64:4294967296", FALSE>>, <<R \o <<K("daystart"), K("elapsed_days")>>, "@NUM:-1", FALSE>>,
    <<A1 \o <<K("status")>>, "restricted", TRUE>>, <<A1 \o <<K("status")>>, "noupdate", TRUE>>,
    <<A1 \o <<K("status")>>, "error-whatever", TRUE>>, <<A1 \o <<K("status")>>, "OK", TRUE>>, <<A1 \o <<K("status")>>, "empty", TRUE>>,
    <<UC \o <<K("status")>>, "error-osnotsupported", TRUE>>, <<UC \o <<K("status")>>, "restricted", TRUE>>,
    <<A1 \o <<K("cohort")>>, "empty", TRUE>>, <<A1 \o <<K("cohortname")>>, "empty", TRUE>>,
    <<UC \o <<K("urls"), K("url")>>, "emptyarr", TRUE>>, <<MF \o <<K("packages"), K("package")>>, "emptyarr", TRUE>>,
    <<MF \o <<K("actions"), K("action")>>, "emptyarr", TRUE>>, <<A1 \o <<K("event")>>, "emptyarr", TRUE>>,
    <<P1 \o <<K("required")>>, "false", TRUE>>,
    \* extension attributes where the protocol allows them
    <<A1 \o <<K("x-app-ext")>>, "e1", TRUE>>, <<A1 \o <<K("x-app-obj")>>, "obj", TRUE>>,
    <<UC \o <<K("x-uc-ext")>>, "i7", TRUE>>, <<AC1 \o <<K("x-act-ext")>>, "true", TRUE>>, <<P1 \o <<K("x-pkg-ext")>>, "pe", TRUE>>,
    \* unknown keys elsewhere are ignored
    <<R \o <<K("x-resp-ext")>>, "ignored", TRUE>>, <<MF \o <<K("x-mf-ext")>>, "ignored", TRUE>>,
    <<<<K("x-top")>>, "i1", TRUE>> }
IgnoredKeys == {"x-resp-ext", "x-mf-ext", "x-top"}

\* an edit: [path, kind, val, ok]
EditsB1 == {[path |-> r[1], kind |-> "remove", val |-> "", ok |-> FALSE] : r \in RequiredB1}
           \cup {[path |-> r[1], kind |-> "set", val |-> "@NULL", ok |-> FALSE] : r \in RequiredB1}
           \cup {[path |-> r[1], kind |-> "set", val |-> Wrong(r[2]), ok |-> FALSE] : r \in RequiredB1}
           \cup {[path |-> o[1], kind |-> "remove", val |-> "", ok |-> TRUE] : o \in OptionalB1}
           \cup {[path |-> o[1], kind |-> "set", val |-> "@NULL", ok |-> TRUE] : o \in OptionalB1}
           \cup {[path |-> o[1], kind |-> "set", val |-> Wrong(o[2]), ok |-> FALSE] : o \in OptionalB1}
           \cup {[path |-> s[1], kind |-> "set", val |-> s[2], ok |-> s[3]] : s \in Specials}
\* two edits commute only if neither path is a prefix of the other
IsPrefix(a, b) == Len(a) <= Len(b) /\ SubSeq(b, 1, Len(a)) = a
Indep(e1, e2) == ~IsPrefix(e1.path, e2.path) /\ ~IsPrefix(e2.path, e1.path)

(***************************************************************************)
(* The anti-XSSI prefix )]}'\n : accepted exactly as it is and changing      *)
(* nothing else.  Variants of the prefix bytes in front of a valid document *)
(* (every single-bit flip, every truncation, doubled, absent) are accepted  *)
(* iff they are the prefix itself or nothing; alone they are never a        *)
(* document.                                                                *)
(***************************************************************************)
Prefix == <<41, 93, 125, 39, 10>>
Pow2(b) == CASE b = 0 -> 1 [] b = 1 -> 2 [] b = 2 -> 4 [] b = 3 -> 8 [] b = 4 -> 16 [] b = 5 -> 32 [] b = 6 -> 64 [] OTHER -> 128
FlipBit(x, b) == IF (x \div Pow2(b)) % 2 = 1 THEN x - Pow2(b) ELSE x + Pow2(b)
PrefixVariants == {[Prefix EXCEPT ![i] = FlipBit(Prefix[i], b)] : i \in 1..5, b \in 0..7}
                  \cup {SubSeq(Prefix, 1, n) : n \in 0..5} \cup {Prefix \o Prefix, Prefix \o <<10>>, <<10>> \o Prefix}
\* (JSON allows white space before the document, so the prefix followed by white space is still the prefix)
JsonWs == {9, 10, 13, 32}
PrefixOk(v) == v = <<>> \/ (Len(v) >= 5 /\ SubSeq(v, 1, 5) = Prefix /\ \A i \in 6..Len(v) : v[i] \in JsonWs)

CONSTANT Pairs       \* TRUE: also every pair of independent edits
VARIABLES base, edits
Init == \/ (base \in {"b2", "b3"} /\ edits = <<>>)
        \/ (base = "pfx" /\ \E v \in PrefixVariants, alone \in BOOLEAN : edits = <<[bytes |-> v, alone |-> alone]>>)
        \/ (base = "b1" /\ edits = <<>>)
        \/ (base = "b1" /\ \E e \in EditsB1 : edits = <<e>>)
        \/ (Pairs /\ base = "b1" /\ \E e1 \in EditsB1, e2 \in EditsB1 : Indep(e1, e2) /\ edits = <<e1, e2>>)
Next == UNCHANGED <<base, edits>>
Spec == Init /\ [][Next]_<<base, edits>>

RECURSIVE ApplyAll(_, _)
ApplyAll(t, es) == IF es = <<>> THEN t ELSE ApplyAll(Edit(t, Head(es).path, Head(es).kind, ValOf(Head(es).val)), Tail(es))
DocOf == ApplyAll(Bases[base], edits)
Valid == \A i \in 1..Len(edits) : edits[i].ok

\* full URLs of the first app of b1 variants: every codebase x every package name, codebase-major.
\* Only stated when no edit sits at or above the urls / manifest objects (then the lists are still lists).
Touched(p) == \E i \in 1..Len(edits) : IsPrefix(edits[i].path, p)
UrlsKnown == base = "b1" /\ Valid /\ ~Touched(UC \o <<K("urls")>>) /\ ~Touched(MF \o <<K("packages")>>)
FullUrls(doc) ==
  LET uc == doc.response.app[1].updatecheck
      cbs == uc.urls.url
      pks == uc.manifest.packages.package
  IN [n \in 1..(Len(cbs) * Len(pks)) |->
        cbs[((n - 1) \div Len(pks)) + 1].codebase \o pks[((n - 1) % Len(pks)) + 1].name]

Emit == IF base = "pfx"
          THEN PrintT("DOC " \o ToJson([base |-> base, nedits |-> 1, bytes |-> edits[1].bytes, alone |-> edits[1].alone,
                                        valid |-> ~edits[1].alone /\ PrefixOk(edits[1].bytes)]))
          ELSE PrintT("DOC " \o ToJson([base |-> base, nedits |-> Len(edits), valid |-> Valid, doc |-> DocOf,
                                 ignored |-> IgnoredKeys,
                                 urlsKnown |-> UrlsKnown, urls |-> IF UrlsKnown THEN FullUrls(DocOf) ELSE <<>>]))
\* law of the model: independent edits commute
Laws == (base # "pfx" /\ Len(edits) = 2) => ApplyAll(Bases[base], <<edits[2], edits[1]>>) = DocOf
=============================================================================
