SPECIFICATION Spec
CONSTANT Pairs = TRUE
INVARIANT Laws
INVARIANT Emit
CHECK_DEADLOCK FALSE
