-------------------------------- MODULE Wire --------------------------------
(***************************************************************************)
(* C15 - the Omaha v3 request as a function of (configuration, parameters, *)
(* sequence of builder operations).  Build returns the headers and the     *)
(* abstract JSON tree with EXACTLY the keys that must be present; TLC      *)
(* prints it with ToJson, so TLC is the independently written encoder the  *)
(* property asks for.  The harness applies the same operations to the real *)
(* RequestBuilder and compares structurally.                               *)
(***************************************************************************)
EXTENDS Integers, Sequences, FiniteSets, TLC, Json

None == <<>>
Some(v) == <<v>>
\* an object from a sequence of <<key, option-of-value>>: absent options are omitted
Obj(ps) == LET present == {i \in 1..Len(ps) : ps[i][2] # None} IN
           [k \in {ps[i][1] : i \in present} |-> ps[CHOOSE i \in present : ps[i][1] = k][2][1]]
Merge(a, b) == [k \in (DOMAIN a) \cup (DOMAIN b) |-> IF k \in DOMAIN b THEN b[k] ELSE a[k]]

\* app templates: T1 and T2 share an id but differ in everything else
T1 == [id |-> "app-a", ver |-> "1.2.3.4", fp |-> None, cohort |-> [id |-> Some("c1"), hint |-> None, name |-> None],
       uc |-> Some(5), extra |-> <<>>]
T2 == [id |-> "app-a", ver |-> "9.9.0.0", fp |-> Some("fp2"), cohort |-> [id |-> None, hint |-> Some("h2"), name |-> Some("")],
       uc |-> None, extra |-> [k0 |-> "v0", k1 |-> "v1", k2 |-> "v2", k3 |-> "v3", k4 |-> "v4", k5 |-> "v5", k6 |-> "v6"]]
T3 == [id |-> "app-b", ver |-> "0.0.0.1", fp |-> None, cohort |-> [id |-> None, hint |-> None, name |-> None],
       uc |-> Some(0), extra |-> <<>>]
\* T4's id differs from T1/T2's only in letter case: a different app
T4 == [id |-> "APP-A", ver |-> "3.0.0.0", fp |-> None, cohort |-> [id |-> None, hint |-> None, name |-> Some("up")],
       uc |-> Some(34), extra |-> <<>>]
Templates == [t1 |-> T1, t2 |-> T2, t3 |-> T3, t4 |-> T4]
TNames == {"t1", "t2", "t3", "t4"}

\* events: Event::success(UpdateDownloadStarted) ; an installation error with versions and a download time
E1 == [t |-> 13, r |-> 1, e |-> None, prev |-> None, next |-> None, dl |-> None]
E2 == [t |-> 3, r |-> 0, e |-> Some(2), prev |-> Some("1.2.3.4"), next |-> Some("2.0"), dl |-> Some(1500)]
Events == [e1 |-> E1, e2 |-> E2]

OpsAlphabet == {[op |-> "uc", t |-> t, e |-> ""] : t \in TNames} \cup {[op |-> "ping", t |-> t, e |-> ""] : t \in TNames}
               \cup {[op |-> "ev", t |-> t, e |-> e] : t \in TNames, e \in {"e1", "e2"}}
               \cup {[op |-> "sid", t |-> "", e |-> ""], [op |-> "rid", t |-> "", e |-> ""]}
Params == [src : {"ondemand", "scheduledtask"}, dis : BOOLEAN, same : BOOLEAN]

(***************************************************************************)
(* The builder: entries in first-insertion order, merged by app id.        *)
(***************************************************************************)
RECURSIVE Apply(_, _)
\* state: [entries: seq of [app, uc: BOOLEAN, ping: BOOLEAN, evs: seq], sid, rid]
Apply(st, ops) ==
  IF ops = <<>> THEN st
  ELSE LET o == Head(ops) IN
       IF o.op = "sid" THEN Apply([st EXCEPT !.sid = TRUE], Tail(ops))
       ELSE IF o.op = "rid" THEN Apply([st EXCEPT !.rid = TRUE], Tail(ops))
       ELSE LET app == Templates[o.t]
                S == {i \in 1..Len(st.entries) : st.entries[i].app.id = app.id}
                ents == IF S = {} THEN Append(st.entries, [app |-> app, uc |-> FALSE, ping |-> FALSE, evs |-> <<>>]) ELSE st.entries
                i == IF S = {} THEN Len(ents) ELSE CHOOSE i \in S : TRUE
                e2 == CASE o.op = "uc" -> [ents EXCEPT ![i].uc = TRUE]
                        [] o.op = "ping" -> [ents EXCEPT ![i].ping = TRUE]
                        [] OTHER -> [ents EXCEPT ![i].evs = Append(@, Events[o.e])]
            IN Apply([st EXCEPT !.entries = e2], Tail(ops))

EventJson(e) == Obj(<< <<"eventtype", Some(e.t)>>, <<"eventresult", Some(e.r)>>, <<"errorcode", e.e>>,
                      <<"previousversion", e.prev>>, <<"nextversion", e.next>>, <<"download_time_ms", e.dl>> >>)
UcJson(p) == Obj(<< <<"updatedisabled", IF p.dis THEN Some(TRUE) ELSE None>>,
                   <<"sameversionupdate", IF p.same THEN Some(TRUE) ELSE None>> >>)
PingJson(a) == Obj(<< <<"ad", a.uc>>, <<"rd", a.uc>> >>)
EntryJson(en, p) ==
  Merge(Obj(<< <<"appid", Some(en.app.id)>>, <<"version", Some(en.app.ver)>>, <<"fp", en.app.fp>>,
              <<"cohort", en.app.cohort.id>>, <<"cohorthint", en.app.cohort.hint>>, <<"cohortname", en.app.cohort.name>>,
              <<"updatecheck", IF en.uc THEN Some(UcJson(p)) ELSE None>>,
              <<"event", IF en.evs = <<>> THEN None ELSE Some([i \in 1..Len(en.evs) |-> EventJson(en.evs[i])])>>,
              <<"ping", IF en.ping THEN Some(PingJson(en.app)) ELSE None>> >>),
        en.app.extra)
Build(p, ops) ==
  LET st == Apply([entries |-> <<>>, sid |-> FALSE, rid |-> FALSE], ops) IN
  [method |-> "POST",
   headers |-> Obj(<< <<"content-type", Some("application/json")>>, <<"x-goog-update-updater", Some("wire-updater")>>,
                     <<"x-goog-update-interactivity", Some(IF p.src = "ondemand" THEN "fg" ELSE "bg")>>,
                     <<"x-goog-update-appid", IF st.entries = <<>> THEN None ELSE Some(st.entries[1].app.id)>> >>),
   body |-> [request |-> Obj(<< <<"protocol", Some("3.0")>>, <<"updater", Some("wire-updater")>>, <<"updaterversion", Some("7.8.9.10")>>,
                              <<"installsource", Some(p.src)>>, <<"ismachine", Some(TRUE)>>,
                              <<"requestid", IF st.rid THEN Some("@GUID") ELSE None>>,
                              <<"sessionid", IF st.sid THEN Some("@GUID") ELSE None>>,
                              <<"os", Some([platform |-> "plat", version |-> "os1", sp |-> "sp2", arch |-> "arm64"])>>,
                              <<"app", Some([i \in 1..Len(st.entries) |-> EntryJson(st.entries[i], p)])>> >>)]]

CONSTANT MaxOps
VARIABLES p, ops
Init == p \in Params /\ ops = <<>>
Next == Len(ops) < MaxOps /\ \E o \in OpsAlphabet : ops' = Append(ops, o) /\ UNCHANGED p
Spec == Init /\ [][Next]_<<p, ops>>

\* laws of the model itself
Apps(b) == b.body.request.app
Laws ==
  LET b == Build(p, ops) IN
  /\ \A i, j \in 1..Len(Apps(b)) : i # j => Apps(b)[i].appid # Apps(b)[j].appid             \* each app once
  /\ Build(p, ops) = b                                                                       \* building is a function
  /\ \A i \in 1..Len(Apps(b)) : "ping" \in DOMAIN Apps(b)[i] =>
        (("ad" \in DOMAIN Apps(b)[i].ping) <=> ("rd" \in DOMAIN Apps(b)[i].ping))            \* ad = rd
  /\ (\E i \in 1..Len(ops) : ops[i].op \notin {"sid", "rid"}) => "x-goog-update-appid" \in DOMAIN b.headers
Emit == PrintT("WIRE " \o ToJson([p |-> p, ops |-> ops, exp |-> Build(p, ops)]))
=============================================================================
