SPECIFICATION Spec
CONSTANT MaxOps = 2
INVARIANT Laws
INVARIANT Emit
CHECK_DEADLOCK FALSE
