SPECIFICATION Spec
CONSTANTS
  Programs <- MCProgs2
  MaxSteps = 6
  Strict = FALSE
INVARIANT GenInv
INVARIANT PrintDone
CHECK_DEADLOCK FALSE
