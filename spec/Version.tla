------------------------------ MODULE Version ------------------------------
(***************************************************************************)
(* C20 - reference model of omaha-client's Version: parse, print, order.   *)
(* Strings are sequences of one-character tokens; numbers are digit        *)
(* strings (TLC integers are 32-bit, u32 values are not), compared by      *)
(* length then lexicographically.  TLC enumerates every token string up    *)
(* to MaxLen and prints the model's verdict and canonical form; the        *)
(* harness runs the same strings through the real FromStr / Display /      *)
(* serde / Ord and compares.                                               *)
(***************************************************************************)
EXTENDS Integers, Sequences, FiniteSets, TLC, Json

CONSTANTS Tokens, MaxLen, Comps, Pool

Digits == {"0", "1", "2", "3", "4", "5", "6", "7", "8", "9"}
IsNum(p) == Len(p) > 0 /\ \A i \in 1..Len(p) : p[i] \in Digits
RECURSIVE Strip(_)
Strip(p) == IF Len(p) > 1 /\ Head(p) = "0" THEN Strip(Tail(p)) ELSE p
U32MAX == <<"4", "2", "9", "4", "9", "6", "7", "2", "9", "5">>
DigitVal(d) == CASE d = "0" -> 0 [] d = "1" -> 1 [] d = "2" -> 2 [] d = "3" -> 3 [] d = "4" -> 4
                 [] d = "5" -> 5 [] d = "6" -> 6 [] d = "7" -> 7 [] d = "8" -> 8 [] OTHER -> 9
RECURSIVE LexLT(_, _)
LexLT(a, b) == IF a = <<>> THEN FALSE
               ELSE IF DigitVal(Head(a)) < DigitVal(Head(b)) THEN TRUE
               ELSE IF DigitVal(Head(a)) > DigitVal(Head(b)) THEN FALSE
               ELSE LexLT(Tail(a), Tail(b))
\* numeric order on canonical (stripped) digit strings
NumLT(a, b) == Len(a) < Len(b) \/ (Len(a) = Len(b) /\ LexLT(a, b))
FitsU32(p) == LET q == Strip(p) IN ~NumLT(U32MAX, q)

\* split at dots
RECURSIVE Split(_, _, _)
Split(s, cur, acc) == IF s = <<>> THEN Append(acc, cur)
                      ELSE IF Head(s) = "." THEN Split(Tail(s), <<>>, Append(acc, cur))
                      ELSE Split(Tail(s), Append(cur, Head(s)), acc)
Parts(s) == Split(s, <<>>, <<>>)

Zero == <<"0">>
\* verdict: "ok" with four canonical components, "err", or "unconstrained" (a part with a leading '+', DESIGN 7.2)
PlusNum(p) == Len(p) >= 2 /\ Head(p) = "+" /\ IsNum(Tail(p))
Parse(s) ==
  LET ps == Parts(s) IN
  IF Len(ps) > 4 THEN [v |-> "err", c |-> <<>>]
  ELSE IF \A i \in 1..Len(ps) : IsNum(ps[i]) /\ FitsU32(ps[i])
         THEN [v |-> "ok", c |-> [i \in 1..4 |-> IF i <= Len(ps) THEN Strip(ps[i]) ELSE Zero]]
  ELSE IF \A i \in 1..Len(ps) : (IsNum(ps[i]) /\ FitsU32(ps[i])) \/ (PlusNum(ps[i]) /\ FitsU32(Tail(ps[i])))
         THEN [v |-> "unconstrained", c |-> <<>>]
  ELSE [v |-> "err", c |-> <<>>]

RECURSIVE Join(_)
Join(p) == IF p = <<>> THEN "" ELSE Head(p) \o Join(Tail(p))
Str(s) == Join(s)
Show(c) == Join(c[1]) \o "." \o Join(c[2]) \o "." \o Join(c[3]) \o "." \o Join(c[4])
PrintSeq(c) == c[1] \o <<".">> \o c[2] \o <<".">> \o c[3] \o <<".">> \o c[4]

\* order: numeric, component-wise, left to right
RECURSIVE VerLT(_, _, _)
VerLT(a, b, i) == IF i > 4 THEN FALSE
                  ELSE IF NumLT(a[i], b[i]) THEN TRUE
                  ELSE IF NumLT(b[i], a[i]) THEN FALSE
                  ELSE VerLT(a, b, i + 1)

(***************************************************************************)
(* Enumeration: phase "str" grows every token string; phase "cmp" holds    *)
(* one pair of versions from the boundary set.                             *)
(***************************************************************************)
VARIABLES ph, s, a, b
Versions == {<<w, x, y, z>> : w \in Comps, x \in Comps, y \in {<<"0">>, <<"1">>}, z \in {<<"0">>, <<"7">>}}
\* phase "comp": strings built from whole components of a pool (long zero-padded numbers, boundary values,
\* malformed parts) - lengths the character enumeration cannot reach
RECURSIVE JoinDots(_)
JoinDots(cs) == IF Len(cs) = 1 THEN cs[1] ELSE cs[1] \o <<".">> \o JoinDots(Tail(cs))
CompStrings == UNION {[1..k -> Pool] : k \in 1..4} \cup {[i \in 1..5 |-> <<"1">>]}
Init == \/ (ph = "str" /\ s = <<>> /\ a = <<>> /\ b = <<>>)
        \/ (ph = "comp" /\ \E cs \in CompStrings : s = JoinDots(cs) /\ a = <<>> /\ b = <<>>)
        \/ (ph = "cmp" /\ s = <<>> /\ a \in Versions /\ b \in Versions)
Next == /\ ph = "str" /\ Len(s) < MaxLen
        /\ \E t \in Tokens : s' = Append(s, t)
        /\ UNCHANGED <<ph, a, b>>
Spec == Init /\ [][Next]_<<ph, s, a, b>>

\* laws of the model itself
Laws ==
  /\ ph \in {"str", "comp"} =>
       LET r == Parse(s) IN
       r.v = "ok" =>
         /\ Parse(PrintSeq(r.c)) = r                         \* parse(print v) = v, canonical four-part form
         /\ \A i \in 1..4 : r.c[i] = Strip(r.c[i])
  /\ ph = "cmp" =>
       /\ ~(VerLT(a, b, 1) /\ VerLT(b, a, 1))
       /\ (a = b) <=> (~VerLT(a, b, 1) /\ ~VerLT(b, a, 1))  \* total, equality is component-wise
       /\ (a[1] = <<"9">> /\ b[1] = <<"1", "0">>) => VerLT(a, b, 1)          \* numeric, not lexicographic

Emit ==
  IF ph \in {"str", "comp"}
    THEN LET r == Parse(s) IN
         PrintT("VEC " \o ToJson([s |-> Str(s), v |-> r.v, p |-> IF r.v = "ok" THEN Show(r.c) ELSE "", np |-> Len(Parts(s))]))
    ELSE PrintT("CMP " \o ToJson([a |-> Show(a), b |-> Show(b), lt |-> VerLT(a, b, 1), eq |-> a = b]))
=============================================================================
