SPECIFICATION Spec
CONSTANTS
  Programs <- MCProgs3
  MaxSteps = 10
  Strict = TRUE
INVARIANT GenInv
INVARIANT PrintDone
CHECK_DEADLOCK FALSE
