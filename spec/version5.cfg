SPECIFICATION Spec
CONSTANTS
  Tokens <- MCTokens
  MaxLen = 5
  Comps <- MCComps
  Pool <- MCPool
INVARIANT Laws
INVARIANT Emit
CHECK_DEADLOCK FALSE
