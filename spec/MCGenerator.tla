---------------------------- MODULE MCGenerator ----------------------------
EXTENDS Generator, Json
Y == [op |-> "Y", g |-> 0]
SW == [op |-> "SW", g |-> 0]
W1 == [op |-> "W", g |-> 1]
W2 == [op |-> "W", g |-> 2]
DH == [op |-> "DH", g |-> 0]
YA0 == [op |-> "YA", g |-> 0]
YA2 == [op |-> "YA", g |-> 2]
Alphabet == {Y, YA0, YA2, SW, W1, W2, DH}
\* no yield after the handle has been dropped (the handle is moved); the handle is dropped at most once
WellFormed(p) == \A i, j \in 1..Len(p) : (p[i].op = "DH" /\ j > i) => p[j].op \notin {"Y", "YA", "DH"}
ProgsUpTo(n) == {p \in UNION {[1..k -> Alphabet] : k \in 0..n} : WellFormed(p)}
MCProgs2 == ProgsUpTo(2)
MCProgs3 == ProgsUpTo(3)
MCProgs4 == ProgsUpTo(4)
MCProgs5 == ProgsUpTo(5)
Finished == s.ended \/ s.n >= MaxSteps
PrintDone == Finished => PrintT("GEN " \o ToJson([prog |-> s.prog, hist |-> hist]))
View == s
=============================================================================
