SPECIFICATION Spec
CONSTANTS
  Mode = "oneshot"
  CupOn = FALSE
  Apps0 <- MCApps2
  SysApp = "a"
  UcAnswers <- MCUcSfail
  EvAnswers <- MCEvOk
  PingAnswers <- MCPing
  PlanAnswers = {"ok"}
  StartAnswers = {"ok", "deferred"}
  ResultLetters = {"i", "f"}
  NeededAnswers = {TRUE}
  AllowedAnswers = {TRUE}
  CheckAnswers <- MCCheckAll
  NextAnswers <- MCNext1
  BackoffDraws = {0}
  ProgressSeqs <- MCProg0
  MaxChecks = 1
  MaxCtl = 0
  CtlSources <- MCNoSrc
  MaxRebootAsks = 0
  MaxCrashes = 0
  RestartRuns <- MCRestartNone
  FailSets <- MCFailPairs
  Jumps <- MCJumpNone
  MaxJumps = 0
  Bounded = TRUE
  Mut = "none"
INVARIANT NoViolation
INVARIANT PrintDone
CHECK_DEADLOCK FALSE
