------------------------------ MODULE MCOmaha ------------------------------
(* TLC-only definitions for Omaha.tla: alphabets, printing of complete behaviours, state constraint. *)
EXTENDS Omaha, Json

AppA == [id |-> "a", ver |-> "1.2.3.4", cohort |-> [hint |-> "stable"], uc |-> Some(3)]
AppB == [id |-> "b", ver |-> "2.0.0.0", cohort |-> <<>>, uc |-> None]
MCApps2 == <<AppA, AppB>>
MCApps1 == <<AppA>>

Entry(id, ucst, ver, coh) == [id |-> id, status |-> "ok", cohort |-> coh,
                            uc |-> IF ucst = "none" THEN None ELSE Some([status |-> ucst, ver |-> ver])]
Doc(apps, ds) == [apps |-> apps, daystart |-> ds]
D77 == Some([days |-> Some(77)])

Resp(status, auth, xra, body) == [cls |-> "resp", status |-> status, auth |-> auth, xra |-> xra, wrap |-> "plain", prefix |-> FALSE, body |-> body, j |-> 1]
AuthOk == IF CupOn THEN "genuine" ELSE "na"
X5 == <<<<53>>>>
XBig == <<<<52,50,57,52,57,54,55,50,57,54>>>>     \* 4294967296 -> 86400
XBad == <<<<97>>>>

\* documents: every sequence of <= 2 entries over {a, b, unknown} x {ok+manifest, ok, noupdate, error, none}
EntryKinds == {<<"ok", "2.0.0.0">>, <<"ok", "None">>, <<"noupdate", "None">>, <<"error-x", "None">>, <<"none", "None">>}
Entries(ids) == {Entry(i, k[1], k[2], IF i = "a" THEN [id |-> "c9"] ELSE <<>>) : i \in ids, k \in EntryKinds}
DocsOver(ids) == {Doc(<<e>>, D77) : e \in Entries(ids)}
                 \cup {Doc(<<e1, e2>>, None) : e1 \in Entries(ids), e2 \in Entries(ids)}
DistinctIds(d) == \A i, j \in 1..Len(d.apps) : i # j => d.apps[i].id # d.apps[j].id
MCDocsFlow == {d \in DocsOver({"a", "b", "zz"}) : DistinctIds(d)}
MCUcFlow == {Resp(200, AuthOk, <<>>, [doc |-> d]) : d \in MCDocsFlow}

\* the 16-letter per-attempt alphabet of C06
SmallDoc == Doc(<<Entry("a", "noupdate", "None", [id |-> "c9"])>>, D77)
MCUcRetry ==
  {[cls |-> "transport"], [cls |-> "timeout"], [cls |-> "user"],
   Resp(404, AuthOk, <<>>, [garbage |-> "empty"]), Resp(503, AuthOk, <<>>, [garbage |-> "notjson"]),
   Resp(404, AuthOk, X5, [garbage |-> "empty"]), Resp(503, AuthOk, XBig, [garbage |-> "empty"]),
   Resp(200, AuthOk, <<>>, [garbage |-> "trunc"]), Resp(200, AuthOk, X5, [garbage |-> "notjson"]),
   Resp(200, AuthOk, <<>>, [doc |-> SmallDoc]), Resp(200, AuthOk, X5, [doc |-> SmallDoc]), Resp(200, AuthOk, XBad, [doc |-> SmallDoc])}
  \cup (IF CupOn THEN {Resp(200, "forged", X5, [doc |-> SmallDoc]), Resp(200, "tampered", <<>>, [doc |-> SmallDoc]),
                       Resp(503, "unsigned", X5, [garbage |-> "empty"]), Resp(200, "wrongkey", <<>>, [doc |-> SmallDoc])}
        ELSE {})

\* two offered apps + one unknown offered app: every report kind is exercised
MCUcReports == {Resp(200, AuthOk, <<>>, [doc |-> Doc(<<Entry("b", "ok", "3.0.0.0", <<>>), Entry("zz", "ok", "None", <<>>), Entry("a", "ok", "None", [id |-> "c9"])>>, D77)]),
                Resp(200, AuthOk, X5, [garbage |-> "trunc"])}
MCUcSched == {Resp(200, AuthOk, <<>>, [doc |-> SmallDoc]),
              Resp(200, AuthOk, <<>>, [doc |-> Doc(<<Entry("a", "ok", "2.0.0.0", <<>>)>>, D77)]),
              [cls |-> "user"]}
MCSrcBoth == {"ondemand", "scheduledtask"}
MCEvOk == {Resp(200, AuthOk, <<>>, [garbage |-> "noresp"])}
MCEvAll == MCEvOk \cup {[cls |-> "transport"], Resp(500, AuthOk, X5, [garbage |-> "empty"])}
              \cup (IF CupOn THEN {Resp(200, "forged", X5, [garbage |-> "noresp"])} ELSE {})

MCPing == {Resp(200, AuthOk, <<>>, [doc |-> Doc(<<Entry("a", "none", "None", [name |-> "n1"])>>, D77)]),
           [cls |-> "transport"], Resp(200, AuthOk, X5, [garbage |-> "notjson"])}

\* pings under CUP: genuine (with a cohort change and a header), forged with a header, tampered body, an
\* unauthenticated error status with a header, transport failure
MCPingCup == {Resp(200, "genuine", X5, [doc |-> Doc(<<Entry("a", "none", "None", [name |-> "n1"])>>, D77)]),
              Resp(200, "forged", XBig, [doc |-> Doc(<<Entry("a", "none", "None", [name |-> "evil"])>>, D77)]),
              Resp(200, "tampered", <<>>, [doc |-> Doc(<<Entry("a", "none", "None", [name |-> "evil"])>>, D77)]),
              Resp(503, "unsigned", XBig, [garbage |-> "empty"]),
              [cls |-> "transport"]}
MCUcInstallCup == {Resp(200, "genuine", <<>>, [doc |-> Doc(<<Entry("a", "ok", "2.0.0.0", [id |-> "c9"])>>, D77)])}
MCEvCup == {Resp(200, "genuine", <<>>, [garbage |-> "noresp"]), Resp(200, "forged", XBig, [garbage |-> "noresp"])}
CheckOk1 == [d |-> "ok", src |-> "same", dis |-> FALSE, same |-> FALSE, proxy |-> TRUE]
MCCheckAll == {CheckOk1, [d |-> "okdeferred", src |-> "ondemand", dis |-> TRUE, same |-> TRUE, proxy |-> TRUE],
               [d |-> "toosoon", src |-> "same", dis |-> FALSE, same |-> FALSE, proxy |-> TRUE],
               [d |-> "throttled", src |-> "same", dis |-> FALSE, same |-> FALSE, proxy |-> TRUE],
               [d |-> "denied", src |-> "same", dis |-> FALSE, same |-> FALSE, proxy |-> TRUE]}
MCCheckSched == {CheckOk1, [d |-> "throttled", src |-> "same", dis |-> FALSE, same |-> FALSE, proxy |-> TRUE]}
MCCheckOkOnly == {CheckOk1}
MCNextAll == {[kind |-> "both", dt |-> 3600, minwait |-> None], [kind |-> "wall", dt |-> 60, minwait |-> Some(30)],
              [kind |-> "mono", dt |-> 60, minwait |-> Some(30)], [kind |-> "both", dt |-> 60, minwait |-> None, mwms |-> Some(500)]}
\* an absolute deadline: the policy returns the identical timing at every iteration
NextAbs == [kind |-> "wall", dt |-> 0, minwait |-> Some(30), abs |-> Some(5000)]
MCNextAllAbs == MCNextAll \cup {NextAbs}
MCNextAbs == {NextAbs, [kind |-> "both", dt |-> 3600, minwait |-> None]}
MCNext1 == {[kind |-> "both", dt |-> 3600, minwait |-> None]}

MCDraws2 == {-500, 499}
MCDraws3 == {-500, 0, 499}
MCRestartNone == {}
MCFailNone == {{}}
MCJumpNone == {}
MCJumps == {0 - 3600, 5000}
\* every single failing storage operation among the first ones of each kind, and some pairs
StOps == {[k |-> k, n |-> n] : k \in {"st.set", "st.rm"}, n \in 1..6} \cup {[k |-> "st.commit", n |-> n] : n \in 1..4}
MCFailSingles == {{}} \cup {{f} : f \in StOps}
MCFailPairs == MCFailSingles \cup {{[k |-> "st.set", n |-> 1], [k |-> "st.set", n |-> 2]}, {[k |-> "st.set", n |-> 2], [k |-> "st.commit", n |-> 1]},
                                   {[k |-> "st.set", n |-> 3], [k |-> "st.set", n |-> 4]}, {[k |-> "st.rm", n |-> 1], [k |-> "st.commit", n |-> 2]}}
MCUcSfail == {Resp(200, AuthOk, X5, [doc |-> Doc(<<Entry("a", "ok", "2.0.0.0", [id |-> "c9"]), Entry("b", "noupdate", "None", <<>>)>>, D77)]),
              Resp(200, AuthOk, <<>>, [garbage |-> "trunc"])}
\* restarts: same presets on the same OS; on the target version; with different embedder presets
AppAPreset == [id |-> "a", ver |-> "1.2.3.4", cohort |-> [name |-> "preset-name"], uc |-> None]
MCRestarts == {[os |-> "1.0", apps |-> MCApps1], [os |-> "2.0.0.0", apps |-> MCApps1], [os |-> "2.0.0.0", apps |-> <<AppAPreset>>]}
MCUcHistory == {Resp(200, AuthOk, <<>>, [doc |-> Doc(<<Entry("a", "ok", "2.0.0.0", [id |-> "c9", hint |-> ""])>>, D77)]),
                Resp(200, AuthOk, X5, [doc |-> SmallDoc]), [cls |-> "transport"], Resp(200, AuthOk, <<>>, [garbage |-> "trunc"])}
MCProg0 == {<<>>}
MCProg2 == {<<>>, <<250, 750>>}
MCProg3 == {<<>>, <<500>>, <<250, 750>>, <<0, 1000, 1000>>}
MCUcInstall == {Resp(200, AuthOk, <<>>, [doc |-> Doc(<<Entry("a", "ok", "2.0.0.0", [id |-> "c9"])>>, D77)])}
MCNoSrc == {}

\* one JSON line per complete behaviour: the environment script and the predicted log
PrintDone == Done => PrintT("BEHAVIOUR " \o ToJson([script |-> script, obs |-> obs]))
\* history variables do not distinguish states
View == <<st, [g EXCEPT !.cur = <<>>, !.ref = <<>>]>>
\* per-property invariants (attribution: a check reports only its own property's clauses)
Inv_C02 == ViolOf(g, "C02") = {}
Inv_C03 == ViolOf(g, "C03") = {}
Inv_C04 == ViolOf(g, "C04") = {}
Inv_C05 == ViolOf(g, "C05") = {}
Inv_C06 == ViolOf(g, "C06") = {}
Inv_C07 == ViolOf(g, "C07") = {}
Inv_C08 == ViolOf(g, "C08") = {}
Inv_C09 == ViolOf(g, "C09") = {}
Inv_C10 == ViolOf(g, "C10") = {}
Inv_C11 == ViolOf(g, "C11") = {}
Inv_C12 == ViolOf(g, "C12") = {}
Inv_C13 == ViolOf(g, "C13") = {}
Inv_C14 == ViolOf(g, "C14") = {}
Inv_C18 == ViolOf(g, "C18") = {}
=============================================================================
