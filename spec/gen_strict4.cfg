SPECIFICATION Spec
CONSTANTS
  Programs <- MCProgs4
  MaxSteps = 12
  Strict = TRUE
INVARIANT GenInv
INVARIANT PrintDone
CHECK_DEADLOCK FALSE
