SPECIFICATION Spec
CONSTANTS
  Mode = "start"
  CupOn = FALSE
  Apps0 <- MCApps1
  SysApp = "a"
  UcAnswers <- MCUcSched
  EvAnswers <- MCEvOk
  PingAnswers <- MCPing
  PlanAnswers = {"ok"}
  StartAnswers = {"ok"}
  ResultLetters = {"i"}
  NeededAnswers = {TRUE, FALSE}
  AllowedAnswers = {TRUE, FALSE}
  CheckAnswers <- MCCheckSched
  NextAnswers <- MCNextAll
  BackoffDraws = {0}
  ProgressSeqs <- MCProg0
  MaxChecks = 1
  MaxCtl = 1
  CtlSources <- MCSrcBoth
  MaxRebootAsks = 1
  MaxCrashes = 0
  RestartRuns <- MCRestartNone
  FailSets <- MCFailNone
  Jumps <- MCJumpNone
  MaxJumps = 0
  ProgressModes = {"seq"}
  MaxStale = 0
  Bounded = TRUE
  Mut = "none"
INVARIANT NoViolation
VIEW View
CHECK_DEADLOCK FALSE
