--------------------------- MODULE TimeConvProof ---------------------------
(***************************************************************************)
(* Unbounded companion to TimeConv.tla (C19): over ALL integer nanosecond  *)
(* offsets from the epoch, truncation to storage precision moves toward    *)
(* the epoch by less than a microsecond, lands on a whole microsecond, is  *)
(* idempotent, and agrees with "convert to microseconds (toward the epoch) *)
(* and back".  Checked by TLAPS (SMT back end).                            *)
(***************************************************************************)
EXTENDS Integers, TLAPS

\* nanoseconds -> microseconds, truncating toward the epoch (checked_system_time_to_micros_from_epoch)
ToMicros(ns) == IF ns >= 0 THEN ns \div 1000 ELSE 0 - ((0 - ns) \div 1000)
\* microseconds -> nanoseconds (micros_from_epoch_to_system_time)
FromMicros(us) == us * 1000
\* ComplexTime::truncate_submicrosecond_walltime after the fix: subtract d % 1000 after the epoch, add it before
Trunc(ns) == IF ns >= 0 THEN ns - (ns % 1000) ELSE ns + ((0 - ns) % 1000)

THEOREM RoundTrip == \A us \in Int : ToMicros(FromMicros(us)) = us
  BY DEF ToMicros, FromMicros

THEOREM TruncIsRoundTrip == \A ns \in Int : Trunc(ns) = FromMicros(ToMicros(ns))
  BY DEF Trunc, ToMicros, FromMicros

THEOREM TruncTowardEpoch == \A ns \in Int :
            /\ (ns >= 0 => Trunc(ns) <= ns /\ ns - Trunc(ns) < 1000 /\ Trunc(ns) >= 0)
            /\ (ns < 0 => Trunc(ns) >= ns /\ Trunc(ns) - ns < 1000 /\ Trunc(ns) <= 0)
  BY DEF Trunc

THEOREM TruncWholeMicros == \A ns \in Int : Trunc(ns) % 1000 = 0
  BY DEF Trunc

THEOREM TruncIdempotent == \A ns \in Int : Trunc(Trunc(ns)) = Trunc(ns)
  BY DEF Trunc
=============================================================================
