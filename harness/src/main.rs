mod docenc;
mod doubles;
mod drive;
mod fnprops;
mod signer;
mod world;

use std::io::{BufRead, Write};

fn main() {
    let args: Vec<String> = std::env::args().collect();
    let cmd = args.get(1).map(|s| s.as_str()).unwrap_or("");
    let seed: u64 = std::env::var("VERIF_SEED").ok().and_then(|s| s.parse().ok()).unwrap_or(1);
    // panics inside the code under test are data; keep the default hook quiet
    std::panic::set_hook(Box::new(|info| {
        let loc = info.location().map(|l| format!("{}:{}", l.file(), l.line())).unwrap_or_default();
        world::LAST_PANIC_LOC.with(|c| *c.borrow_mut() = loc);
    }));
    match cmd {
        "sm" => {
            // scenarios: ndjson on stdin or file arg; logs: ndjson on stdout or file arg
            let input: Box<dyn BufRead> = match args.get(2).map(|s| s.as_str()) {
                Some("-") | None => Box::new(std::io::BufReader::new(std::io::stdin())),
                Some(p) => Box::new(std::io::BufReader::new(std::fs::File::open(p).expect("open scenarios"))),
            };
            let mut out: Box<dyn Write> = match args.get(3).map(|s| s.as_str()) {
                Some("-") | None => Box::new(std::io::BufWriter::new(std::io::stdout())),
                Some(p) => Box::new(std::io::BufWriter::new(std::fs::File::create(p).expect("create log"))),
            };
            for line in input.lines() {
                let line = line.expect("read");
                if line.trim().is_empty() {
                    continue;
                }
                let sc: serde_json::Value = serde_json::from_str(&line).expect("scenario json");
                for l in drive::run_scenario(&sc) {
                    writeln!(out, "{}", l).unwrap();
                }
            }
        }
        "ver" => fnprops::ver(&args[2], &args[3]),
        "cup" => fnprops::cup(&args[2], &args[3], seed),
        "wire" => fnprops::wire(&args[2], &args[3]),
        "resp" => fnprops::resp(&args[2], &args[3], seed),
        "resp-sweep" => fnprops::resp_sweep(&args[2], args[3].parse().unwrap_or(1)),
        "mock" => fnprops::mock(&args[2], &args[3]),
        "gen" => fnprops::generator(&args[2], &args[3]),
        "time" => fnprops::time(&args[2], &args[3], seed),
        _ => {
            eprintln!("usage: vh sm [scenarios.ndjson|-] [log.ndjson|-]");
            std::process::exit(2);
        }
    }
}
