//! Independent CUPv2 signer: composes the transaction digest from sha2 calls directly (never via the
//! library's make_transaction_hash) and signs with p256.  Keys are fixed scalars so runs are
//! reproducible.

use p256::ecdsa::{signature::Signer, Signature, SigningKey, VerifyingKey};
use sha2::{Digest, Sha256};

pub fn key(i: u8) -> SigningKey {
    let mut b = [0u8; 32];
    for (j, x) in b.iter_mut().enumerate() {
        *x = (j as u8).wrapping_mul(7).wrapping_add(i.wrapping_mul(31)).wrapping_add(1);
    }
    b[0] = 1 + (i % 100); // keep the scalar far below the group order
    SigningKey::from_bytes(&b).expect("valid scalar")
}

pub fn pubkey(i: u8) -> VerifyingKey {
    VerifyingKey::from(&key(i))
}

pub fn sha(b: &[u8]) -> Vec<u8> {
    Sha256::digest(b).to_vec()
}

/// SHA256( SHA256(req) || SHA256(resp) || "<kid>:<nonce hex>" )
pub fn digest(req: &[u8], resp: &[u8], cup2key: &str) -> Vec<u8> {
    let mut h = Sha256::new();
    h.update(sha(req));
    h.update(sha(resp));
    h.update(cup2key.as_bytes());
    h.finalize().to_vec()
}

pub fn sign_der(k: &SigningKey, msg: &[u8]) -> Vec<u8> {
    let s: Signature = k.sign(msg);
    s.to_der().as_bytes().to_vec()
}

/// ETag text for a genuine exchange.
pub fn etag(k: &SigningKey, req: &[u8], resp: &[u8], cup2key: &str) -> (String, Vec<u8>) {
    let d = digest(req, resp, cup2key);
    let sig = sign_der(k, &d);
    (format!("{}:{}", hex::encode(&sig), hex::encode(sha(req))), sig)
}
