//! Shared state between the scripted doubles and the driver: log, clock, gates, timers, storage.
//! Everything the library does to its environment goes through here and is logged as one ndjson
//! line per event (alphabet: DESIGN.md §4.2).  No JSON `null` is ever written (TLC's Json module
//! rejects it): absent values are the string "None".

use serde_json::{json, Map, Value};
use std::collections::{BTreeMap, HashMap};
use std::future::Future;
use std::pin::Pin;
use std::sync::atomic::{AtomicUsize, Ordering};
use std::sync::{Arc, Mutex, MutexGuard};
use std::task::{Context, Poll, Wake, Waker};
use std::time::{Duration, Instant, SystemTime};

pub type W = Arc<Mutex<World>>;

thread_local! {
    /// location of the last panic (set by the panic hook; panics in the code under test are data)
    pub static LAST_PANIC_LOC: std::cell::RefCell<String> = const { std::cell::RefCell::new(String::new()) };
}

pub fn lk(w: &W) -> MutexGuard<'_, World> {
    w.lock().unwrap_or_else(|e| e.into_inner())
}

/// Wall base: 2023-11-14T22:13:20Z; tick t <-> BASE + t s + 123_456_789 ns.
pub const BASE_SECS: u64 = 1_700_000_000;
pub const SUB_NS: u32 = 123_456_789;

pub fn base_wall() -> SystemTime {
    SystemTime::UNIX_EPOCH + Duration::from_secs(BASE_SECS)
}

#[derive(Clone, Debug, PartialEq)]
pub enum SVal {
    I(i64),
    S(String),
    B(bool),
}

#[derive(Default)]
pub struct Store {
    pub pending: BTreeMap<String, SVal>,
    pub committed: BTreeMap<String, SVal>,
}

pub struct Gate {
    pub open: bool,
    pub waker: Option<Waker>,
}

pub struct TimerSt {
    pub gate: usize,
    pub until: bool,
    pub secs: Option<u64>, // whole seconds of a wait_for, if exact
    pub fired: bool,
    pub run: usize,
}

pub struct Pending {
    pub gate: usize,
    pub kind: String,
    pub n: usize,
}

pub trait Env: Send {
    /// The abstract answer for the n-th call of `kind` (1-based).
    fn answer(&mut self, kind: &str, n: usize, call: &Value) -> Value;
}

pub struct World {
    pub lines: Vec<String>,
    pub tok: HashMap<String, HashMap<String, i64>>,
    pub i0: Instant,
    pub wall: SystemTime,
    pub mono: Instant,
    pub gates: Vec<Gate>,
    pub pending: Option<Pending>,
    pub timers: Vec<TimerSt>,
    pub counters: HashMap<String, usize>,
    pub env: Box<dyn Env>,
    pub store: Store,
    pub run: usize,
    /// last metadata produced by the CUP handler's decorate_request (recorded by RecordingCup)
    pub last_meta: Option<(Vec<u8>, u64, [u8; 32])>,
    /// wire body / served body / served signature of the last update-check exchange
    pub last_uc_wire: Option<Vec<u8>>,
    pub last_uc_meta: Option<(Vec<u8>, u64, [u8; 32])>,
    pub last_uc_resp: Option<Vec<u8>>,
    pub last_uc_sig: Option<Vec<u8>>,
    /// genuine exchanges served so far in this scenario: (body, etag) for replays
    pub genuine: Vec<(Vec<u8>, String)>,
    pub auto_tick: bool,
}

impl World {
    pub fn new(env: Box<dyn Env>) -> World {
        let i0 = Instant::now();
        World {
            lines: Vec::new(),
            tok: HashMap::new(),
            i0,
            wall: base_wall() + Duration::new(0, SUB_NS),
            mono: i0,
            gates: Vec::new(),
            pending: None,
            timers: Vec::new(),
            counters: HashMap::new(),
            env,
            store: Store::default(),
            run: 0,
            last_meta: None,
            last_uc_wire: None,
            last_uc_meta: None,
            last_uc_resp: None,
            last_uc_sig: None,
            genuine: Vec::new(),
            auto_tick: true,
        }
    }

    pub fn emit(&mut self, mut v: Value) {
        // every line carries the clock at emission: whole seconds since BASE / I0
        if let Value::Object(m) = &mut v {
            let tw = wall_json(self.wall)["s"].clone();
            let tm = self.mono_j(self.mono)["s"].clone();
            m.insert("tw".into(), tw);
            m.insert("tm".into(), tm);
        }
        self.lines.push(v.to_string());
    }

    pub fn token(&mut self, cat: &str, val: &str) -> i64 {
        let m = self.tok.entry(cat.to_string()).or_default();
        let next = m.len() as i64 + 1;
        *m.entry(val.to_string()).or_insert(next)
    }

    pub fn next_n(&mut self, kind: &str) -> usize {
        let c = self.counters.entry(kind.to_string()).or_insert(0);
        *c += 1;
        *c
    }

    pub fn new_gate(&mut self) -> usize {
        self.gates.push(Gate {
            open: false,
            waker: None,
        });
        self.gates.len() - 1
    }

    /// Opens a gate and wakes whoever waits on it.  Returns whether a waker was registered.
    pub fn open_gate(&mut self, id: usize) -> bool {
        let g = &mut self.gates[id];
        g.open = true;
        match g.waker.take() {
            Some(w) => {
                w.wake();
                true
            }
            None => false,
        }
    }

    pub fn tick(&mut self, dw: i64, dm: i64) {
        if dw >= 0 {
            self.wall += Duration::from_secs(dw as u64);
        } else {
            self.wall -= Duration::from_secs((-dw) as u64);
        }
        if dm > 0 {
            self.mono += Duration::from_secs(dm as u64);
        }
    }

    pub fn wall_j(&self, t: SystemTime) -> Value {
        wall_json(t)
    }

    pub fn mono_j(&self, t: Instant) -> Value {
        match t.checked_duration_since(self.i0) {
            Some(d) => dur_json(d),
            None => {
                let d = self.i0.duration_since(t);
                let (s, ns) = if d.subsec_nanos() > 0 {
                    (-(d.as_secs() as i128) - 1, 1_000_000_000 - d.subsec_nanos())
                } else {
                    (-(d.as_secs() as i128), 0)
                };
                json!({"s": int_json(s), "ns": ns})
            }
        }
    }
}

pub fn wall_json(t: SystemTime) -> Value {
    let base = base_wall();
    let (s, ns): (i128, u32) = match t.duration_since(base) {
        Ok(d) => (d.as_secs() as i128, d.subsec_nanos()),
        Err(e) => {
            let d = e.duration();
            // floor form: s negative, ns in 0..1e9
            if d.subsec_nanos() > 0 {
                (-(d.as_secs() as i128) - 1, 1_000_000_000 - d.subsec_nanos())
            } else {
                (-(d.as_secs() as i128), 0)
            }
        }
    };
    json!({"s": int_json(s), "ns": ns})
}

pub fn dur_json(d: Duration) -> Value {
    json!({"s": int_json(d.as_secs() as i128), "ns": d.subsec_nanos()})
}

pub const BIG: i64 = 1 << 30;

/// Integers are clamped to [-2^30, 2^30] (TLC integers are 32-bit); 2^30 reads "at least 2^30".
pub fn int_json(i: i128) -> Value {
    json!(i.clamp(-(BIG as i128), BIG as i128) as i64)
}

/// Option<T> is a JSON array of length <= 1 (TLC cannot compare a record or number with "None").
pub fn opt_json<T: Into<Value>>(o: Option<T>) -> Value {
    match o {
        Some(v) => Value::Array(vec![v.into()]),
        None => json!([]),
    }
}

pub fn obj(pairs: Vec<(&str, Value)>) -> Value {
    let mut m = Map::new();
    for (k, v) in pairs {
        m.insert(k.to_string(), v);
    }
    Value::Object(m)
}

pub struct GateFut {
    pub w: W,
    pub id: usize,
}

impl Future for GateFut {
    type Output = ();
    fn poll(self: Pin<&mut Self>, cx: &mut Context<'_>) -> Poll<()> {
        let mut g = lk(&self.w);
        let gate = &mut g.gates[self.id];
        if gate.open {
            Poll::Ready(())
        } else {
            gate.waker = Some(cx.waker().clone());
            Poll::Pending
        }
    }
}

/// Asks the environment for the abstract answer to the next call of `kind`.
pub fn ask(w: &W, kind: &str, call: &Value) -> (usize, Value) {
    let mut g = lk(w);
    let n = g.next_n(kind);
    let ans = g.env.answer(kind, n, call);
    (n, ans)
}

/// One gated environment operation: logs the call with its (resolved) answer, blocks until the
/// driver opens the gate, then advances the clock by one tick.
pub async fn gate_op(w: &W, kind: &str, n: usize, call: Value, ans: Value) {
    let gate = {
        let mut g = lk(w);
        let mut line = Map::new();
        line.insert("k".into(), json!(kind));
        line.insert("n".into(), json!(n));
        if let Value::Object(m) = &call {
            for (k, v) in m {
                line.insert(k.clone(), v.clone());
            }
        }
        line.insert("ans".into(), ans);
        g.emit(Value::Object(line));
        let gate = g.new_gate();
        g.pending = Some(Pending {
            gate,
            kind: kind.to_string(),
            n,
        });
        gate
    };
    GateFut { w: w.clone(), id: gate }.await;
    let mut g = lk(w);
    g.pending = None;
    if g.auto_tick {
        g.tick(1, 1);
    }
}

pub async fn op(w: &W, kind: &str, call: Value) -> Value {
    let (n, ans) = ask(w, kind, &call);
    gate_op(w, kind, n, call, ans.clone()).await;
    ans
}

pub struct RootWake {
    pub count: AtomicUsize,
}

impl Wake for RootWake {
    fn wake(self: Arc<Self>) {
        self.count.fetch_add(1, Ordering::SeqCst);
    }
    fn wake_by_ref(self: &Arc<Self>) {
        self.count.fetch_add(1, Ordering::SeqCst);
    }
}
