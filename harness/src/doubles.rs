//! Scripted, logging doubles for every embedder trait of omaha-client.

use crate::docenc;
use crate::signer;
use crate::world::*;
use futures::future::{BoxFuture, LocalBoxFuture};
use futures::prelude::*;
use omaha_client::{
    app_set::AppSet,
    common::{App, CheckOptions, CheckTiming, ProtocolState, UpdateCheckSchedule, UserCounting},
    cup_ecdsa::{
        CupDecorationError, CupRequest, CupVerificationError, Cupv2RequestHandler, Cupv2Verifier,
        Nonce, PublicKeyAndId, PublicKeyId, PublicKeys, RequestMetadata, StandardCupv2Handler,
    },
    http_request::{self, HttpRequest},
    installer::{AppInstallResult, Installer, Plan, ProgressObserver},
    metrics::{Metrics, MetricsReporter},
    policy::{CheckDecision, PolicyEngine, UpdateDecision},
    protocol::request::InstallSource,
    protocol::response::Response,
    request_builder::RequestParams,
    storage::Storage,
    time::{ComplexTime, PartialComplexTime, TimeSource, Timer},
};
use p256::ecdsa::DerSignature;
use serde_json::{json, Map, Value};
use std::time::{Duration, Instant, SystemTime};

// ---------------------------------------------------------------- projections

pub fn src_j(s: InstallSource) -> Value {
    match s {
        InstallSource::OnDemand => json!("ondemand"),
        InstallSource::ScheduledTask => json!("scheduledtask"),
    }
}

pub fn cohort_j(c: &omaha_client::protocol::Cohort) -> Value {
    let mut m = Map::new();
    if let Some(v) = &c.id {
        m.insert("id".into(), json!(v));
    }
    if let Some(v) = &c.hint {
        m.insert("hint".into(), json!(v));
    }
    if let Some(v) = &c.name {
        m.insert("name".into(), json!(v));
    }
    Value::Object(m)
}

pub fn uc_j(u: &UserCounting) -> Value {
    let UserCounting::ClientRegulatedByDate(d) = u;
    opt_json(d.map(|n| int_json(n as i128)))
}

pub fn apps_j(apps: &[App]) -> Value {
    Value::Array(
        apps.iter()
            .map(|a| {
                json!({"id": a.id, "ver": a.version.to_string(), "cohort": cohort_j(&a.cohort),
                       "uc": uc_j(&a.user_counting)})
            })
            .collect(),
    )
}

pub fn pct_j(g: &World, t: &Option<PartialComplexTime>) -> Value {
    match t {
        None => json!({"w": [], "m": []}),
        Some(p) => {
            let (w, m) = p.destructure();
            json!({"w": opt_json(w.map(|x| g.wall_j(x))), "m": opt_json(m.map(|x| g.mono_j(x)))})
        }
    }
}

pub fn timing_j(g: &World, t: &Option<CheckTiming>) -> Value {
    opt_json(t.map(|t| json!({"time": pct_j(g, &Some(t.time)), "minwait": opt_json(t.minimum_wait.map(dur_json))})))
}

pub fn sched_j(g: &World, s: &UpdateCheckSchedule) -> Value {
    json!({"lut": pct_j(g, &s.last_update_time), "lct": pct_j(g, &s.last_update_check_time),
           "next": timing_j(g, &s.next_update_time)})
}

pub fn ps_j(p: &ProtocolState) -> Value {
    // whole seconds (clamped); a non-zero sub-second part is reported as -1 so it can never match
    let poll = opt_json(p.server_dictated_poll_interval.map(|d| {
        if d.subsec_nanos() == 0 {
            int_json(d.as_secs() as i128)
        } else {
            json!(-1)
        }
    }));
    json!({"poll": poll, "fails": int_json(p.consecutive_failed_update_checks as i128)})
}

pub fn params_j(p: &RequestParams) -> Value {
    json!({"src": src_j(p.source), "proxy": p.use_configured_proxies, "dis": p.disable_updates,
           "same": p.offer_update_if_same_version})
}

// ---------------------------------------------------------------- clock

#[derive(Clone)]
pub struct VClock(pub W);

impl TimeSource for VClock {
    fn now_in_walltime(&self) -> SystemTime {
        lk(&self.0).wall
    }
    fn now_in_monotonic(&self) -> Instant {
        lk(&self.0).mono
    }
    fn now(&self) -> ComplexTime {
        let g = lk(&self.0);
        ComplexTime {
            wall: g.wall,
            mono: g.mono,
        }
    }
}

// ---------------------------------------------------------------- policy

#[derive(Debug)]
pub struct VPlan {
    pub id: String,
    pub n_offered: usize,
}
impl Plan for VPlan {
    fn id(&self) -> String {
        self.id.clone()
    }
}

pub struct VPolicy {
    pub w: W,
    pub clock: VClock,
}

fn parse_src(v: &Value, dflt: InstallSource) -> InstallSource {
    match v.as_str() {
        Some("ondemand") => InstallSource::OnDemand,
        Some("scheduledtask") => InstallSource::ScheduledTask,
        _ => dflt,
    }
}

impl PolicyEngine for VPolicy {
    type TimeSource = VClock;
    type InstallResult = String;
    type InstallPlan = VPlan;

    fn time_source(&self) -> &VClock {
        &self.clock
    }

    fn compute_next_update_time<'a>(
        &'a mut self,
        apps: &'a [App],
        scheduling: &'a UpdateCheckSchedule,
        protocol_state: &'a ProtocolState,
    ) -> BoxFuture<'a, CheckTiming> {
        let call = {
            let g = lk(&self.w);
            json!({"apps": apps_j(apps), "sched": sched_j(&g, scheduling), "ps": ps_j(protocol_state)})
        };
        let w = self.w.clone();
        async move {
            // The timing is fixed relative to the clock at call time so that it can be logged.
            let (wall, mono) = {
                let g = lk(&w);
                (g.wall, g.mono)
            };
            let ans = op(&w, "pol.next", call).await;
            let dt = Duration::from_secs(ans["dt"].as_u64().unwrap_or(3600));
            // "abs": an absolute deadline (seconds after the start of the world) instead of one relative to now:
            // a policy of the "every day at 03:00" kind returns the SAME timing on consecutive iterations
            let (wall, mono) = match ans.get("abs").and_then(|x| x.get(0)).and_then(|x| x.as_u64()) {
                Some(a) => {
                    let g = lk(&w);
                    (crate::world::base_wall() + Duration::new(a, crate::world::SUB_NS), g.i0 + Duration::from_secs(a))
                }
                None => (wall, mono),
            };
            let dt = if ans.get("abs").and_then(|x| x.get(0)).is_some() { Duration::from_secs(0) } else { dt };
            let time = match ans["kind"].as_str() {
                Some("wall") => PartialComplexTime::Wall(wall + dt),
                Some("mono") => PartialComplexTime::Monotonic(mono + dt),
                _ => PartialComplexTime::Complex(ComplexTime {
                    wall: wall + dt,
                    mono: mono + dt,
                }),
            };
            CheckTiming {
                time,
                // "mwms" (milliseconds) takes precedence over "minwait" (seconds)
                minimum_wait: match ans.get("mwms").and_then(|x| x.get(0)).and_then(|x| x.as_u64()) {
                    Some(ms) => Some(Duration::from_millis(ms)),
                    None => ans["minwait"].get(0).and_then(|x| x.as_u64()).map(Duration::from_secs),
                },
            }
        }
        .boxed()
    }

    fn update_check_allowed<'a>(
        &'a mut self,
        apps: &'a [App],
        scheduling: &'a UpdateCheckSchedule,
        protocol_state: &'a ProtocolState,
        check_options: &'a CheckOptions,
    ) -> BoxFuture<'a, CheckDecision> {
        let call = {
            let g = lk(&self.w);
            json!({"apps": apps_j(apps), "sched": sched_j(&g, scheduling), "ps": ps_j(protocol_state),
                   "src": src_j(check_options.source)})
        };
        let w = self.w.clone();
        let opt_src = check_options.source;
        async move {
            let ans = op(&w, "pol.check", call).await;
            let params = RequestParams {
                source: parse_src(&ans["src"], opt_src),
                use_configured_proxies: ans["proxy"].as_bool().unwrap_or(true),
                disable_updates: ans["dis"].as_bool().unwrap_or(false),
                offer_update_if_same_version: ans["same"].as_bool().unwrap_or(false),
            };
            match ans["d"].as_str() {
                Some("okdeferred") => CheckDecision::OkUpdateDeferred(params),
                Some("toosoon") => CheckDecision::TooSoon,
                Some("throttled") => CheckDecision::ThrottledByPolicy,
                Some("denied") => CheckDecision::DeniedByPolicy,
                _ => CheckDecision::Ok(params),
            }
        }
        .boxed()
    }

    fn update_can_start<'a>(&'a mut self, plan: &'a VPlan) -> BoxFuture<'a, UpdateDecision> {
        let call = json!({"plan": plan.id});
        let w = self.w.clone();
        async move {
            let ans = op(&w, "pol.start", call).await;
            match ans.as_str() {
                Some("deferred") => UpdateDecision::DeferredByPolicy,
                Some("denied") => UpdateDecision::DeniedByPolicy,
                _ => UpdateDecision::Ok,
            }
        }
        .boxed()
    }

    fn reboot_allowed<'a>(
        &'a mut self,
        check_options: &'a CheckOptions,
        _install_result: &'a String,
    ) -> BoxFuture<'a, bool> {
        let call = json!({"src": src_j(check_options.source)});
        let w = self.w.clone();
        async move { op(&w, "pol.rballowed", call).await.as_bool().unwrap_or(true) }.boxed()
    }

    fn reboot_needed<'a>(&'a mut self, plan: &'a VPlan) -> BoxFuture<'a, bool> {
        let call = json!({"plan": plan.id});
        let w = self.w.clone();
        async move { op(&w, "pol.rbneeded", call).await.as_bool().unwrap_or(true) }.boxed()
    }
}

// ---------------------------------------------------------------- timer

pub struct VTimer(pub W);

impl Timer for VTimer {
    fn wait_until(&mut self, time: impl Into<PartialComplexTime>) -> BoxFuture<'static, ()> {
        let t = time.into();
        let mut g = lk(&self.0);
        let gate = g.new_gate();
        let run = g.run;
        g.timers.push(TimerSt {
            gate,
            until: true,
            secs: None,
            fired: false,
            run,
        });
        let tid = g.timers.len();
        let at = pct_j(&g, &Some(t));
        g.emit(json!({"k": "tm.arm", "tid": tid, "t": "until", "at": at}));
        GateFut {
            w: self.0.clone(),
            id: gate,
        }
        .boxed()
    }

    fn wait_for(&mut self, duration: Duration) -> BoxFuture<'static, ()> {
        let mut g = lk(&self.0);
        let gate = g.new_gate();
        let run = g.run;
        g.timers.push(TimerSt {
            gate,
            until: false,
            secs: if duration.subsec_nanos() == 0 {
                Some(duration.as_secs())
            } else {
                None
            },
            fired: false,
            run,
        });
        let tid = g.timers.len();
        g.emit(json!({"k": "tm.arm", "tid": tid, "t": "for", "d": dur_json(duration),
                      "ms": int_json(duration.as_millis() as i128)}));
        GateFut {
            w: self.0.clone(),
            id: gate,
        }
        .boxed()
    }
}

// ---------------------------------------------------------------- metrics

pub struct VMetrics(pub W);

fn event_j(e: &omaha_client::protocol::request::Event) -> Value {
    // via the public Serialize impl of the wire type; only used for the lost-event metric
    serde_json::to_value(e).unwrap_or(json!("unserialisable"))
}

impl MetricsReporter for VMetrics {
    fn report_metrics(&mut self, m: Metrics) -> Result<(), anyhow::Error> {
        let v = match &m {
            Metrics::UpdateCheckResponseTime {
                response_time,
                successful,
            } => json!({"m": "resp_time", "d": dur_json(*response_time), "ok": successful}),
            Metrics::UpdateCheckInterval {
                interval,
                clock,
                install_source,
            } => json!({"m": "interval", "d": dur_json(*interval), "clock": format!("{:?}", clock),
                        "src": src_j(*install_source)}),
            Metrics::SuccessfulUpdateDuration(d) => json!({"m": "ok_duration", "d": dur_json(*d)}),
            Metrics::SuccessfulUpdateFromFirstSeen(d) => json!({"m": "first_seen", "d": dur_json(*d)}),
            Metrics::FailedUpdateDuration(d) => json!({"m": "fail_duration", "d": dur_json(*d)}),
            Metrics::UpdateCheckFailureReason(r) => json!({"m": "fail_reason", "r": format!("{:?}", r)}),
            Metrics::RequestsPerCheck { count, successful } => {
                json!({"m": "rpc", "count": int_json(*count as i128), "ok": successful})
            }
            Metrics::AttemptsToSuccessfulCheck(n) => json!({"m": "att_check", "count": int_json(*n as i128)}),
            Metrics::AttemptsToSuccessfulInstall { count, successful } => {
                json!({"m": "att_install", "count": int_json(*count as i128), "ok": successful})
            }
            Metrics::WaitedForRebootDuration(d) => json!({"m": "waited", "d": dur_json(*d)}),
            Metrics::FailedBootAttempts(n) => json!({"m": "failed_boot", "count": int_json(*n as i128)}),
            Metrics::OmahaEventLost(e) => {
                let j = event_j(e);
                json!({"m": "lost", "ev": ev_proj(&j)})
            }
        };
        let mut g = lk(&self.0);
        let mut line = Map::new();
        line.insert("k".into(), json!("met"));
        if let Value::Object(m) = v {
            for (k, x) in m {
                line.insert(k, x);
            }
        }
        g.emit(Value::Object(line));
        Ok(())
    }
}

// ---------------------------------------------------------------- storage

#[derive(Debug)]
pub struct VStErr;
impl std::fmt::Display for VStErr {
    fn fmt(&self, f: &mut std::fmt::Formatter<'_>) -> std::fmt::Result {
        write!(f, "scripted storage failure")
    }
}
impl std::error::Error for VStErr {}

pub struct VStorage(pub W);

const TIME_KEYS: [&str; 3] = ["last_update_time", "update_first_seen_time", "update_finish_time"];

/// Typed, shape-uniform projection of a stored value, by key.
pub fn sval_j(key: &str, v: &SVal) -> Value {
    let is_ctr = key == "consecutive_failed_update_checks" || key == "consecutive_failed_install_attempts";
    let is_str = key == "install_plan_id" || key == "target_version";
    if TIME_KEYS.contains(&key) {
        return match v {
            SVal::I(i) => {
                // micros since the epoch -> wall projection at microsecond precision
                let rel = (*i as i128) - (BASE_SECS as i128) * 1_000_000;
                json!({"s": int_json(rel.div_euclid(1_000_000)), "ns": (rel.rem_euclid(1_000_000) * 1000) as i64})
            }
            _ => json!({"s": 0, "ns": 0, "bad": true}),
        };
    }
    if key == "server_dictated_poll_interval" {
        return match v {
            SVal::I(i) => json!({"s": int_json((*i as i128).div_euclid(1_000_000)), "exact": *i % 1_000_000 == 0}),
            _ => json!({"s": 0, "exact": false, "bad": true}),
        };
    }
    if is_ctr {
        return match v {
            SVal::I(i) => int_json(*i as i128),
            _ => json!(-1),
        };
    }
    if is_str {
        return match v {
            SVal::S(s) => json!(s),
            _ => json!("@bad"),
        };
    }
    // everything else is an app record
    if let SVal::S(s) = v {
        if let Ok(Value::Object(m)) = serde_json::from_str::<Value>(s) {
            if m.contains_key("cohort") && m.contains_key("user_counting") {
                let mut c = Map::new();
                if let Some(co) = m["cohort"].as_object() {
                    for (k, wire) in [("id", "cohort"), ("hint", "cohorthint"), ("name", "cohortname")] {
                        if let Some(Value::String(x)) = co.get(wire) {
                            c.insert(k.into(), json!(x));
                        }
                    }
                }
                let uc = match m["user_counting"].get("ClientRegulatedByDate") {
                    Some(Value::Number(n)) => opt_json(Some(int_json(n.as_i64().unwrap_or(-1) as i128))),
                    _ => json!([]),
                };
                return json!({"cohort": Value::Object(c), "uc": uc});
            }
        }
    }
    json!({"bad": true})
}

pub fn snap_j(m: &std::collections::BTreeMap<String, SVal>) -> Value {
    let mut o = Map::new();
    for (k, v) in m {
        o.insert(k.clone(), sval_j(k, v));
    }
    Value::Object(o)
}

impl VStorage {
    fn write<'a>(&'a mut self, key: &'a str, val: Option<SVal>) -> BoxFuture<'a, Result<(), VStErr>> {
        let w = self.0.clone();
        let (kind, call) = match &val {
            Some(v) => ("st.set", json!({"key": key, "v": sval_j(key, v)})),
            None => ("st.rm", json!({"key": key})),
        };
        async move {
            let ans = op(&w, kind, call).await;
            if ans == "err" {
                return Err(VStErr);
            }
            let mut g = lk(&w);
            match val {
                Some(v) => {
                    g.store.pending.insert(key.to_string(), v);
                }
                None => {
                    g.store.pending.remove(key);
                }
            }
            Ok(())
        }
        .boxed()
    }
}

impl Storage for VStorage {
    type Error = VStErr;

    fn get_string<'a>(&'a self, key: &'a str) -> BoxFuture<'a, Option<String>> {
        let r = match lk(&self.0).store.pending.get(key) {
            Some(SVal::S(s)) => Some(s.clone()),
            _ => None,
        };
        future::ready(r).boxed()
    }
    fn get_int<'a>(&'a self, key: &'a str) -> BoxFuture<'a, Option<i64>> {
        let r = match lk(&self.0).store.pending.get(key) {
            Some(SVal::I(i)) => Some(*i),
            _ => None,
        };
        future::ready(r).boxed()
    }
    fn get_bool<'a>(&'a self, key: &'a str) -> BoxFuture<'a, Option<bool>> {
        let r = match lk(&self.0).store.pending.get(key) {
            Some(SVal::B(b)) => Some(*b),
            _ => None,
        };
        future::ready(r).boxed()
    }
    fn set_string<'a>(&'a mut self, key: &'a str, value: &'a str) -> BoxFuture<'a, Result<(), VStErr>> {
        self.write(key, Some(SVal::S(value.to_string())))
    }
    fn set_int<'a>(&'a mut self, key: &'a str, value: i64) -> BoxFuture<'a, Result<(), VStErr>> {
        self.write(key, Some(SVal::I(value)))
    }
    fn set_bool<'a>(&'a mut self, key: &'a str, value: bool) -> BoxFuture<'a, Result<(), VStErr>> {
        self.write(key, Some(SVal::B(value)))
    }
    fn remove<'a>(&'a mut self, key: &'a str) -> BoxFuture<'a, Result<(), VStErr>> {
        self.write(key, None)
    }
    fn commit(&mut self) -> BoxFuture<'_, Result<(), VStErr>> {
        let w = self.0.clone();
        async move {
            // The snapshot that WOULD be committed is logged with the call.
            let call = {
                let g = lk(&w);
                json!({"snap": snap_j(&g.store.pending)})
            };
            let ans = op(&w, "st.commit", call).await;
            if ans == "err" {
                return Err(VStErr);
            }
            let mut g = lk(&w);
            g.store.committed = g.store.pending.clone();
            Ok(())
        }
        .boxed()
    }
}

// ---------------------------------------------------------------- app set

pub struct VAppSet {
    pub apps: Vec<App>,
    pub sys: String,
}

impl AppSet for VAppSet {
    fn get_apps(&self) -> Vec<App> {
        self.apps.clone()
    }
    fn iter_mut_apps(&mut self) -> Box<dyn Iterator<Item = &mut App> + '_> {
        Box::new(self.apps.iter_mut())
    }
    fn get_system_app_id(&self) -> &str {
        &self.sys
    }
}

// ---------------------------------------------------------------- installer

#[derive(Debug)]
pub struct VInstErr(pub String);
impl std::fmt::Display for VInstErr {
    fn fmt(&self, f: &mut std::fmt::Formatter<'_>) -> std::fmt::Result {
        write!(f, "{}", self.0)
    }
}
impl std::error::Error for VInstErr {}

pub struct VInstaller(pub W);

impl Installer for VInstaller {
    type InstallPlan = VPlan;
    type InstallResult = String;
    type Error = VInstErr;

    fn perform_install<'a>(
        &'a mut self,
        plan: &'a VPlan,
        observer: Option<&'a dyn ProgressObserver>,
    ) -> LocalBoxFuture<'a, (String, Vec<AppInstallResult<VInstErr>>)> {
        let w = self.0.clone();
        async move {
            // progress values are part of the scripted answer; they are reported before the
            // install "operation" itself completes (mode seq), or concurrently with each other
            // (mode conc), or the last one races completion (mode race).
            let icall = json!({"plan": plan.id, "n_offered": plan.n_offered});
            let (n, peek) = ask(&w, "inst.install", &icall);
            let progress: Vec<f32> = peek["progress"]
                .as_array()
                .map(|a| a.iter().map(|x| x.as_f64().unwrap_or(0.0) as f32).collect())
                .unwrap_or_default();
            let mode = peek["pmode"].as_str().unwrap_or("seq").to_string();
            {
                let mut g = lk(&w);
                g.emit(json!({"k": "inst.begin", "plan": plan.id, "obs": observer.is_some()}));
            }
            if let Some(obs) = observer {
                if mode == "conc" {
                    let mut futs = vec![];
                    for p in &progress {
                        lk(&w).emit(json!({"k": "inst.prog", "p": (*p * 1000.0).round() as i64}));
                        futs.push(obs.receive_progress(None, *p, None, None));
                    }
                    future::join_all(futs).await;
                } else {
                    for p in &progress {
                        lk(&w).emit(json!({"k": "inst.prog", "p": (*p * 1000.0).round() as i64}));
                        obs.receive_progress(None, *p, None, None).await;
                        lk(&w).emit(json!({"k": "inst.prog.ret"}));
                    }
                }
            }
            // contract-conforming installer: exactly one result per offered app
            let scripted: Vec<String> = peek["results"]
                .as_array()
                .map(|a| a.iter().map(|r| r.as_str().unwrap_or("i").to_string()).collect())
                .unwrap_or_default();
            let eff: Vec<String> = (0..plan.n_offered)
                .map(|i| scripted.get(i).cloned().unwrap_or_else(|| "i".to_string()))
                .collect();
            let mut logged = peek.clone();
            logged["results"] = json!(eff);
            gate_op(&w, "inst.install", n, icall, logged).await;
            let results: Vec<AppInstallResult<VInstErr>> = eff
                .iter()
                .enumerate()
                .map(|(i, r)| match r.as_str() {
                    "d" => AppInstallResult::Deferred,
                    "f" => AppInstallResult::Failed(VInstErr(format!("fail#{}", i + 1))),
                    _ => AppInstallResult::Installed,
                })
                .collect();
            ("ir".to_string(), results)
        }
        .boxed_local()
    }

    fn perform_reboot(&mut self) -> LocalBoxFuture<'_, Result<(), anyhow::Error>> {
        let w = self.0.clone();
        async move {
            let ans = op(&w, "inst.reboot", json!({})).await;
            if ans == "err" {
                Err(anyhow::anyhow!("scripted reboot failure"))
            } else {
                Ok(())
            }
        }
        .boxed_local()
    }

    fn try_create_install_plan<'a>(
        &'a self,
        request_params: &'a RequestParams,
        request_metadata: Option<&'a RequestMetadata>,
        response: &'a Response,
        response_bytes: Vec<u8>,
        ecdsa_signature: Option<Vec<u8>>,
    ) -> LocalBoxFuture<'a, Result<VPlan, VInstErr>> {
        let w = self.0.clone();
        async move {
            let n_offered = response
                .apps
                .iter()
                .filter(|a| {
                    matches!(&a.update_check, Some(u) if u.status == omaha_client::protocol::response::OmahaStatus::Ok)
                })
                .count();
            let call = {
                let g = lk(&w);
                let meta_eq = match (request_metadata, &g.last_uc_meta) {
                    (Some(m), Some((b, kid, nonce))) => {
                        let n: [u8; 32] = m.nonce.into();
                        &m.request_body == b && m.public_key_id == *kid && n == *nonce
                    }
                    (None, None) => true,
                    _ => false,
                };
                let wire_eq = match (request_metadata, &g.last_uc_wire) {
                    (Some(m), Some(b)) => &m.request_body == b,
                    (None, _) => true,
                    _ => false,
                };
                json!({"params": params_j(request_params),
                       "meta": request_metadata.is_some(), "meta_eq": meta_eq, "wire_eq": wire_eq,
                       "bytes_eq": g.last_uc_resp.as_ref() == Some(&response_bytes),
                       "sig": ecdsa_signature.is_some(),
                       "sig_eq": g.last_uc_sig == ecdsa_signature,
                       "n_offered": n_offered,
                       "resp_apps": response.apps.iter().map(|a| a.id.clone()).collect::<Vec<_>>()})
            };
            let ans = op(&w, "inst.plan", call).await;
            match ans.get("ok").and_then(|x| x.get(0)).and_then(|x| x.as_str()) {
                Some(id) => Ok(VPlan {
                    id: id.to_string(),
                    n_offered,
                }),
                None => Err(VInstErr("scripted plan failure".into())),
            }
        }
        .boxed_local()
    }
}

// ---------------------------------------------------------------- CUP

pub struct RecordingCup {
    pub w: W,
    pub inner: StandardCupv2Handler,
}

pub fn public_keys(latest: u64, hist: &[u64]) -> PublicKeys {
    PublicKeys {
        latest: PublicKeyAndId {
            id: latest,
            key: signer::pubkey(latest as u8),
        },
        historical: hist
            .iter()
            .map(|k| PublicKeyAndId {
                id: *k,
                key: signer::pubkey(*k as u8),
            })
            .collect(),
    }
}

impl Cupv2RequestHandler for RecordingCup {
    fn decorate_request(&self, request: &mut impl CupRequest) -> Result<RequestMetadata, CupDecorationError> {
        let r = self.inner.decorate_request(request);
        let mut g = lk(&self.w);
        match &r {
            Ok(m) => {
                let n: [u8; 32] = m.nonce.into();
                g.last_meta = Some((m.request_body.clone(), m.public_key_id, n));
            }
            Err(_) => {
                g.last_meta = None;
                g.emit(json!({"k": "cupd", "ok": false}));
            }
        }
        r
    }

    fn verify_response(
        &self,
        request_metadata: &RequestMetadata,
        resp: &http::Response<Vec<u8>>,
        public_key_id: PublicKeyId,
    ) -> Result<DerSignature, CupVerificationError> {
        let r = self.inner.verify_response(request_metadata, resp, public_key_id);
        let mut g = lk(&self.w);
        let n: [u8; 32] = request_metadata.nonce.into();
        let meta_same = g.last_meta.as_ref().map(|(b, k, nn)| {
            b == &request_metadata.request_body && *k == request_metadata.public_key_id && *nn == n
        });
        g.emit(json!({"k": "cupv", "ok": r.is_ok(), "kid": int_json(public_key_id as i128),
                      "meta_same": meta_same.unwrap_or(false)}));
        r
    }
}

impl Cupv2Verifier for RecordingCup {
    fn verify_response_with_signature(
        &self,
        ecdsa_signature: &DerSignature,
        request_body: &[u8],
        response_body: &[u8],
        public_key_id: PublicKeyId,
        nonce: &Nonce,
    ) -> Result<(), CupVerificationError> {
        self.inner
            .verify_response_with_signature(ecdsa_signature, request_body, response_body, public_key_id, nonce)
    }
}

// ---------------------------------------------------------------- HTTP

pub struct VHttp {
    pub w: W,
    pub base_url: String,
    pub cup: bool,
    pub os_version: String,
}

/// string-typed field: the string, "None" when absent, "@<json>" when not a string
fn sstr(v: Option<&Value>) -> Value {
    match v {
        Some(Value::String(s)) => json!(s),
        Some(other) => json!(format!("@{}", other)),
        None => json!("None"),
    }
}

/// int-typed optional field: [] when absent, [n] when a number, [-1] otherwise
fn sint(v: Option<&Value>) -> Value {
    match v {
        Some(Value::Number(n)) => json!([int_json(n.as_i64().unwrap_or(-1) as i128)]),
        Some(_) => json!([-1]),
        None => json!([]),
    }
}

pub fn ev_proj(e: &Value) -> Value {
    json!({"t": sint(e.get("eventtype")), "r": sint(e.get("eventresult")), "e": sint(e.get("errorcode")),
           "prev": sstr(e.get("previousversion")), "next": sstr(e.get("nextversion")),
           "dl": e.get("download_time_ms").is_some()})
}

fn braced_guid(s: &str) -> bool {
    let b = s.as_bytes();
    if b.len() != 38 || b[0] != b'{' || b[37] != b'}' {
        return false;
    }
    for (i, c) in b[1..37].iter().enumerate() {
        let dash = matches!(i, 8 | 13 | 18 | 23);
        if dash != (*c == b'-') {
            return false;
        }
        if !dash && !c.is_ascii_hexdigit() {
            return false;
        }
    }
    true
}

/// Independent URL splitter: (before '?', query pairs).
pub fn split_url(u: &str) -> (String, Vec<String>) {
    match u.find('?') {
        Some(i) => (
            u[..i].to_string(),
            u[i + 1..].split('&').map(|s| s.to_string()).collect(),
        ),
        None => (u.to_string(), vec![]),
    }
}

impl VHttp {
    fn project(&self, g: &mut World, uri: &str, headers: &http::HeaderMap, method: &str, body: &[u8]) -> (Value, String, Option<String>) {
        let (pre, pairs) = split_url(uri);
        let (bpre, bpairs) = split_url(&self.base_url);
        let cup_pairs: Vec<&String> = pairs.iter().filter(|p| p.starts_with("cup2key=")).collect();
        let other: Vec<String> = pairs.iter().filter(|p| !p.starts_with("cup2key=")).cloned().collect();
        let mut cup2key_str = None;
        let cup2key = if let Some(p) = cup_pairs.first() {
            let v = &p["cup2key=".len()..];
            cup2key_str = Some(v.to_string());
            match v.split_once(':') {
                Some((kid, nonce)) => {
                    let hex64 = nonce.len() == 64 && nonce.bytes().all(|c| c.is_ascii_hexdigit() && !c.is_ascii_uppercase());
                    json!([{"kid": int_json(kid.parse::<i64>().unwrap_or(-1) as i128),
                            "nonce": g.token("nonce", nonce), "hex64": hex64}])
                }
                None => json!([{"kid": -1, "nonce": 0, "hex64": false}]),
            }
        } else {
            json!([])
        };
        let last_is_cup = pairs.last().map(|p| p.starts_with("cup2key=")).unwrap_or(false);
        let url = json!({"base_ok": pre == bpre && other == bpairs, "cup2key": cup2key,
                         "n_cup2key": cup_pairs.len(), "cup_last": last_is_cup || cup_pairs.is_empty()});
        let h = |n: &str| -> Value {
            let vals: Vec<_> = headers.get_all(n).iter().collect();
            if vals.len() == 1 {
                vals[0].to_str().map(|s| json!(s)).unwrap_or(json!("@nonascii"))
            } else if vals.is_empty() {
                json!("None")
            } else {
                json!("@multiple")
            }
        };
        let hdr = json!({"ctype": h("content-type"), "updater": h("x-goog-update-updater"),
                         "inter": h("x-goog-update-interactivity"), "appid": h("x-goog-update-appid")});
        let parsed: Value = serde_json::from_slice(body).unwrap_or(json!({}));
        let req = parsed.get("request").cloned().unwrap_or(json!({}));
        let mut kind = "ev";
        let mut apps = vec![];
        let mut any_ping = false;
        let mut any_ev = false;
        for a in req.get("app").and_then(|x| x.as_array()).cloned().unwrap_or_default() {
            let mut c = Map::new();
            for (k, wire) in [("id", "cohort"), ("hint", "cohorthint"), ("name", "cohortname")] {
                if let Some(v) = a.get(wire) {
                    c.insert(k.into(), sstr(Some(v)));
                }
            }
            let uc = match a.get("updatecheck") {
                Some(u) => {
                    kind = "uc";
                    json!([{"dis": u.get("updatedisabled").and_then(|x| x.as_bool()).unwrap_or(false),
                            "same": u.get("sameversionupdate").and_then(|x| x.as_bool()).unwrap_or(false),
                            "nkeys": u.as_object().map(|o| o.len()).unwrap_or(99)}])
                }
                None => json!([]),
            };
            let ping = match a.get("ping") {
                Some(p) => {
                    any_ping = true;
                    json!([{"ad": sint(p.get("ad")), "rd": sint(p.get("rd"))}])
                }
                None => json!([]),
            };
            let evs: Vec<Value> = a
                .get("event")
                .and_then(|x| x.as_array())
                .map(|es| es.iter().map(ev_proj).collect())
                .unwrap_or_default();
            if !evs.is_empty() {
                any_ev = true;
            }
            let known = ["appid", "version", "fp", "cohort", "cohorthint", "cohortname", "updatecheck", "ping", "event"];
            let mut extra = Map::new();
            if let Some(o) = a.as_object() {
                for (k, v) in o {
                    if !known.contains(&k.as_str()) {
                        extra.insert(k.clone(), sstr(Some(v)));
                    }
                }
            }
            apps.push(json!({"id": sstr(a.get("appid")), "ver": sstr(a.get("version")), "fp": sstr(a.get("fp")),
                             "cohort": Value::Object(c), "uc": uc, "ping": ping, "ev": evs,
                             "extra": Value::Object(extra)}));
        }
        if kind != "uc" && any_ping && !any_ev {
            kind = "ping";
        }
        let rid = req.get("requestid").and_then(|x| x.as_str()).unwrap_or("");
        let sid = req.get("sessionid").and_then(|x| x.as_str()).unwrap_or("");
        let os = req.get("os").cloned().unwrap_or(json!({}));
        let os_ok = os.get("platform") == Some(&json!("vplat"))
            && os.get("version") == Some(&json!(self.os_version))
            && os.get("sp") == Some(&json!("vsp"))
            && os.get("arch") == Some(&json!("varch"));
        let meta = match (&g.last_meta, self.cup) {
            (Some((b, kid, nonce)), _) => {
                let exp = format!("{}:{}", kid, hex::encode(nonce));
                json!({"present": true, "body_eq": b.as_slice() == body,
                       "key_eq": cup2key_str.as_deref() == Some(exp.as_str())})
            }
            (None, _) => json!({"present": false, "body_eq": false, "key_eq": false}),
        };
        let reqj = json!({"proto": sstr(req.get("protocol")), "updater": sstr(req.get("updater")),
                          "uver": sstr(req.get("updaterversion")), "src": sstr(req.get("installsource")),
                          "ismachine": req.get("ismachine") == Some(&json!(true)),
                          "rid": if rid.is_empty() { json!(0) } else { json!(g.token("rid", rid)) },
                          "sid": if sid.is_empty() { json!(0) } else { json!(g.token("sid", sid)) },
                          "rid_ok": braced_guid(rid), "sid_ok": braced_guid(sid), "os_ok": os_ok,
                          "apps": apps});
        (
            json!({"kind": kind, "method": method, "url": url, "hdr": hdr, "req": reqj, "meta": meta}),
            kind.to_string(),
            cup2key_str,
        )
    }
}

fn wrap_etag(e: &str, wrap: &str) -> String {
    match wrap {
        "quoted" => format!("\"{}\"", e),
        "weak" => format!("W/\"{}\"", e),
        _ => e.to_string(),
    }
}

impl HttpRequest for VHttp {
    fn request(
        &mut self,
        req: hyper::Request<hyper::Body>,
    ) -> BoxFuture<'_, Result<hyper::Response<Vec<u8>>, http_request::Error>> {
        async move {
            let (parts, body) = req.into_parts();
            let body = hyper::body::to_bytes(body).await.map(|b| b.to_vec()).unwrap_or_default();
            let uri = parts.uri.to_string();
            let (call, kind, cup2key) = {
                let mut g = lk(&self.w);
                let r = self.project(&mut g, &uri, &parts.headers, parts.method.as_str(), &body);
                if r.1 == "uc" {
                    g.last_uc_wire = Some(body.clone());
                    g.last_uc_meta = g.last_meta.clone();
                    g.last_uc_resp = None;
                    g.last_uc_sig = None;
                }
                r
            };
            // The env sees the abstract call and picks the abstract answer; concretisation below.
            let okind = format!("http.{}", kind);
            let (n, mut ans) = ask(&self.w, &okind, &call);
            let mut result: Result<hyper::Response<Vec<u8>>, http_request::Error> =
                Err(http_request::mock_errors::make_transport_error());
            match ans["cls"].as_str() {
                Some("timeout") => result = Err(http_request::Error::new_timeout()),
                Some("user") => result = Err(http_request::mock_errors::make_user_error()),
                Some("transport") => {}
                _ => {
                    let mut rb = hyper::Response::builder().status(ans["status"].as_u64().unwrap_or(200) as u16);
                    for x in ans["xra"].as_array().cloned().unwrap_or_default() {
                        let bytes: Vec<u8> = x
                            .as_array()
                            .map(|a| a.iter().map(|b| b.as_u64().unwrap_or(63) as u8).collect())
                            .unwrap_or_default();
                        if let Ok(hv) = http::HeaderValue::from_bytes(&bytes) {
                            rb = rb.header("X-Retry-After", hv);
                        }
                    }
                    let mut rbody = match ans["body"].get("doc") {
                        Some(d) => docenc::encode_doc(d),
                        None => docenc::garbage(ans["body"]["garbage"].as_str().unwrap_or("empty")),
                    };
                    if ans["prefix"].as_bool().unwrap_or(false) {
                        let mut p = b")]}'\n".to_vec();
                        p.extend_from_slice(&rbody);
                        rbody = p;
                    }
                    let wrap = ans["wrap"].as_str().unwrap_or("plain").to_string();
                    let mut auth = ans["auth"].as_str().unwrap_or("genuine").to_string();
                    let mut served_sig: Option<Vec<u8>> = None;
                    let raw_etag: Option<Vec<u8>> = ans.get("etag_raw").and_then(|x| x.as_array())
                        .map(|a| a.iter().map(|b| b.as_u64().unwrap_or(63) as u8).collect());
                    if !self.cup {
                        auth = "na".into();
                    } else if let Some(raw) = raw_etag {
                        // an arbitrary ETag header value (degenerate texts, non-ASCII bytes): never a valid signature
                        if let Ok(hv) = http::HeaderValue::from_bytes(&raw) {
                            rb = rb.header("ETag", hv);
                        }
                        auth = "forged".into();
                    } else if let Some(c2k) = &cup2key {
                        let kid: u64 = c2k.split(':').next().and_then(|k| k.parse().ok()).unwrap_or(0);
                        let mut g = lk(&self.w);
                        if auth == "replay" {
                            let j = ans["j"].as_u64().unwrap_or(1) as usize;
                            if j >= 1 && j <= g.genuine.len() {
                                let (b, e) = g.genuine[j - 1].clone();
                                rbody = b;
                                rb = rb.header("ETag", e);
                                // the document served is the old one
                                ans["body"] = json!({"replayed": j});
                            } else {
                                auth = "forged".into();
                            }
                        }
                        match auth.as_str() {
                            "genuine" => {
                                let (e, sig) = signer::etag(&signer::key(kid as u8), &body, &rbody, c2k);
                                let e = wrap_etag(&e, &wrap);
                                g.genuine.push((rbody.clone(), e.clone()));
                                served_sig = Some(sig);
                                rb = rb.header("ETag", e);
                            }
                            "forged" => {
                                // valid DER signature by a key the client has never heard of
                                let (e, _) = signer::etag(&signer::key(99), &body, &rbody, c2k);
                                rb = rb.header("ETag", wrap_etag(&e, &wrap));
                            }
                            "wrongkey" => {
                                // signed by another key the server holds (not the one for this id)
                                let (e, _) = signer::etag(&signer::key((kid as u8).wrapping_add(1)), &body, &rbody, c2k);
                                rb = rb.header("ETag", wrap_etag(&e, &wrap));
                            }
                            "tampered" => {
                                let (e, _) = signer::etag(&signer::key(kid as u8), &body, &rbody, c2k);
                                rb = rb.header("ETag", wrap_etag(&e, &wrap));
                                if rbody.is_empty() {
                                    rbody.push(b' ');
                                } else {
                                    // change the content, not only the bytes: swap the final brace for a space-brace
                                    let l = rbody.len();
                                    rbody.insert(l - 1, b' ');
                                }
                            }
                            "badhash" => {
                                // genuine signature, request hash of another body
                                let (_, sig) = signer::etag(&signer::key(kid as u8), &body, &rbody, c2k);
                                let e = format!("{}:{}", hex::encode(sig), hex::encode(signer::sha(b"other")));
                                rb = rb.header("ETag", wrap_etag(&e, &wrap));
                            }
                            "unsigned" => {}
                            _ => {}
                        }
                    } else {
                        // CUP configured but the request carried no cup2key: nothing to sign with
                        auth = "unsigned".into();
                    }
                    ans["auth"] = json!(auth);
                    if kind == "uc" {
                        let mut g = lk(&self.w);
                        g.last_uc_resp = Some(rbody.clone());
                        g.last_uc_sig = served_sig;
                    }
                    result = Ok(rb.body(rbody).expect("response"));
                }
            }
            // Log + gate with the resolved answer.
            gate_op(&self.w, &okind, n, call, ans).await;
            result
        }
        .boxed()
    }
}
