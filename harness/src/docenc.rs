//! Abstract response documents -> bytes, written against the Omaha v3 JSON grammar with a generic
//! JSON library only (no library types), so it is independent of the parser under test.

use serde_json::{json, Map, Value};

fn s(v: &Value) -> Option<&str> {
    match v {
        Value::String(x) if x != "None" => Some(x),
        _ => None,
    }
}

pub fn encode_doc(doc: &Value) -> Vec<u8> {
    let mut resp = Map::new();
    resp.insert("protocol".into(), json!("3.0"));
    resp.insert("server".into(), json!("prod"));
    if let Some(ds) = doc.get("daystart").and_then(|x| x.get(0)) {
        if ds.is_object() {
            let mut d = Map::new();
            if let Some(n) = ds.get("days").and_then(|x| x.get(0)).and_then(|x| x.as_u64()) {
                d.insert("elapsed_days".into(), json!(n));
            }
            d.insert("elapsed_seconds".into(), json!(4242));
            resp.insert("daystart".into(), Value::Object(d));
        }
    }
    let mut apps = vec![];
    for a in doc.get("apps").and_then(|x| x.as_array()).cloned().unwrap_or_default() {
        let mut m = Map::new();
        m.insert("appid".into(), a["id"].clone());
        m.insert("status".into(), a.get("status").cloned().unwrap_or(json!("ok")));
        if let Some(c) = a.get("cohort").and_then(|c| c.as_object()) {
            for (k, wire) in [("id", "cohort"), ("hint", "cohorthint"), ("name", "cohortname")] {
                if let Some(v) = c.get(k) {
                    m.insert(wire.into(), v.clone());
                }
            }
        }
        if let Some(uc) = a.get("uc").and_then(|x| x.get(0)) {
            if uc.is_object() {
                let mut u = Map::new();
                u.insert("status".into(), uc["status"].clone());
                if uc["status"] == "ok" {
                    u.insert("urls".into(), json!({"url":[{"codebase":"http://dl.example/x/"}]}));
                }
                if let Some(ver) = uc.get("ver").and_then(s) {
                    u.insert(
                        "manifest".into(),
                        json!({"version": ver,
                               "actions": {"action":[{"event":"install","run":"pkg"}]},
                               "packages": {"package":[{"name":"pkg","required":true,"fp":"fp1","size":1234}]}}),
                    );
                }
                m.insert("updatecheck".into(), Value::Object(u));
            }
        }
        apps.push(Value::Object(m));
    }
    resp.insert("app".into(), Value::Array(apps));
    serde_json::to_vec(&json!({ "response": Value::Object(resp) })).unwrap()
}

pub fn garbage(cls: &str) -> Vec<u8> {
    match cls {
        "empty" => vec![],
        "notjson" => b"<html>502</html>".to_vec(),
        "trunc" => b"{\"response\":{\"protocol\":\"3.0\",\"app\":[{\"appid\":\"a\",\"sta".to_vec(),
        "noresp" => b"{}".to_vec(),
        "badtype" => b"{\"response\":{\"protocol\":3,\"app\":[]}}".to_vec(),
        "noapp" => b"{\"response\":{\"protocol\":\"3.0\"}}".to_vec(),
        "binary" => vec![0xff, 0xfe, 0x00, 0x01, 0x80],
        "array" => b"[1,2,3]".to_vec(),
        _ => b"garbage".to_vec(),
    }
}
