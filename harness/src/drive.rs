//! Scenario driver: a manual executor around the real state machine.  The stream is polled only
//! when it has been woken (strict mode), every environment operation is a gate that only the
//! driver opens, and the script may inject stimuli at any blocking point.

use crate::doubles::*;
use crate::world::*;
use futures::prelude::*;
use futures::stream::LocalBoxStream;
use omaha_client::{
    common::{App, CheckOptions, UserCounting},
    configuration::{Config, Updater},
    protocol::{request::InstallSource, request::OS, Cohort},
    state_machine::{
        update_check, ControlHandle, OmahaRequestError, StartUpdateCheckResponse, State, StateMachineBuilder,
        StateMachineEvent, StateMachineGone, UpdateCheckError,
    },
    version::Version,
};
use serde_json::{json, Map, Value};
use std::pin::Pin;
use std::rc::Rc;
use std::str::FromStr;
use std::sync::atomic::Ordering;
use std::sync::{Arc, Mutex};
use std::task::{Context, Poll, Waker};

// ---------------------------------------------------------------- scripted environment

pub struct ScriptEnv {
    pub ans: Map<String, Value>,
}

fn default_doc_for(call: &Value, with_uc: bool) -> Value {
    let apps: Vec<Value> = call["req"]["apps"]
        .as_array()
        .cloned()
        .unwrap_or_default()
        .iter()
        .map(|a| {
            if with_uc {
                json!({"id": a["id"], "status": "ok", "cohort": {}, "uc": [{"status": "noupdate", "ver": "None"}]})
            } else {
                json!({"id": a["id"], "status": "ok", "cohort": {}, "uc": []})
            }
        })
        .collect();
    json!({"apps": apps, "daystart": []})
}

impl Env for ScriptEnv {
    fn answer(&mut self, kind: &str, n: usize, call: &Value) -> Value {
        if let Some(v) = self.ans.get(&format!("{}#{}", kind, n)) {
            return v.clone();
        }
        if let Some(v) = self.ans.get(kind) {
            return v.clone();
        }
        match kind {
            "pol.next" => json!({"kind": "both", "dt": 3600, "minwait": []}),
            "pol.check" => json!({"d": "ok", "src": "same", "proxy": true, "dis": false, "same": false}),
            "pol.start" => json!("ok"),
            "pol.rbneeded" => json!(true),
            "pol.rballowed" => json!(true),
            "http.uc" => json!({"cls": "resp", "status": 200, "xra": [], "auth": "genuine",
                                "body": {"doc": default_doc_for(call, true)}}),
            "http.ev" | "http.ping" => json!({"cls": "resp", "status": 200, "xra": [], "auth": "genuine",
                                "body": {"doc": default_doc_for(call, false)}}),
            "inst.plan" => json!({"ok": ["plan1"]}),
            "inst.install" => json!({"results": [], "progress": [], "pmode": "seq"}),
            "inst.reboot" => json!("ok"),
            _ => json!("ok"),
        }
    }
}

// ---------------------------------------------------------------- building the machine

fn cohort_from(v: &Value) -> Cohort {
    let g = |k: &str| v.get(k).and_then(|x| x.as_str()).map(|s| s.to_string());
    Cohort {
        id: g("id"),
        hint: g("hint"),
        name: g("name"),
    }
}

pub fn apps_from(v: &Value) -> Vec<App> {
    v.as_array()
        .cloned()
        .unwrap_or_default()
        .iter()
        .map(|a| {
            let ver = Version::from_str(a["ver"].as_str().unwrap_or("1.2.3.4")).unwrap_or_else(|_| Version::from([1]));
            let mut b = App::builder()
                .id(a["id"].as_str().unwrap_or("a"))
                .version(ver)
                .cohort(cohort_from(&a["cohort"]))
                .user_counting(UserCounting::ClientRegulatedByDate(a["uc"].as_u64().map(|n| n as u32)))
                .build();
            if let Some(fp) = a.get("fp").and_then(|x| x.as_str()) {
                b.fingerprint = Some(fp.to_string());
            }
            if let Some(ex) = a.get("extra").and_then(|x| x.as_object()) {
                for (k, v) in ex {
                    b.extra_fields.insert(k.clone(), v.as_str().unwrap_or("").to_string());
                }
            }
            b
        })
        .collect()
}

pub fn make_config(url: &str, os_version: &str, cup: Option<(u64, Vec<u64>)>) -> Config {
    Config {
        updater: Updater {
            name: "vupdater".to_string(),
            version: Version::from([0, 1, 2, 3]),
        },
        os: OS {
            platform: "vplat".to_string(),
            version: os_version.to_string(),
            service_pack: "vsp".to_string(),
            arch: "varch".to_string(),
        },
        service_url: url.to_string(),
        omaha_public_keys: cup.map(|(l, h)| public_keys(l, &h)),
    }
}

type EvStream = LocalBoxStream<'static, StateMachineEvent>;

/// Normalised description of one run (what the embedder configured), in a TLC-friendly fixed shape.
pub fn run_cfg_j(cfg: &Value, run: &Value) -> Value {
    let get = |k: &str| run.get(k).or_else(|| cfg.get(k)).cloned().unwrap_or(Value::Null);
    let apps = apps_from(&get("apps"));
    let sys = get("sys")
        .as_str()
        .map(|s| s.to_string())
        .unwrap_or_else(|| apps.first().map(|a| a.id.clone()).unwrap_or_default());
    json!({"mode": if get("mode").as_str() == Some("oneshot") { "oneshot" } else { "start" },
           "cup": get("cup").is_object(),
           "kid": get("cup").get("latest").and_then(|x| x.as_u64()).unwrap_or(0),
           "apps": apps_j(&apps), "sys": sys,
           "os": get("os_version").as_str().unwrap_or("1.0"),
           "url": get("url").as_str().unwrap_or("http://omaha.example/svc/v1"),
           "twin": cfg.get("twin").and_then(|x| x.as_bool()).unwrap_or(false)})
}

fn build(w: &W, cfg: &Value, run: &Value) -> (Option<ControlHandle>, EvStream) {
    let get = |k: &str| run.get(k).or_else(|| cfg.get(k)).cloned().unwrap_or(Value::Null);
    let url = get("url").as_str().unwrap_or("http://omaha.example/svc/v1").to_string();
    let osv = get("os_version").as_str().unwrap_or("1.0").to_string();
    let cup = get("cup");
    let cupcfg = if cup.is_object() {
        Some((
            cup["latest"].as_u64().unwrap_or(1),
            cup["hist"]
                .as_array()
                .map(|a| a.iter().filter_map(|x| x.as_u64()).collect())
                .unwrap_or_default(),
        ))
    } else {
        None
    };
    let apps = apps_from(&get("apps"));
    let sys = get("sys")
        .as_str()
        .map(|s| s.to_string())
        .unwrap_or_else(|| apps.first().map(|a| a.id.clone()).unwrap_or_default());
    let config = make_config(&url, &osv, cupcfg.clone());
    let clock = VClock(w.clone());
    let handler = cupcfg.as_ref().map(|(l, h)| RecordingCup {
        w: w.clone(),
        inner: omaha_client::cup_ecdsa::StandardCupv2Handler::new(&public_keys(*l, h)),
    });
    let builder = StateMachineBuilder::new(
        VPolicy {
            w: w.clone(),
            clock,
        },
        VHttp {
            w: w.clone(),
            base_url: url,
            cup: cupcfg.is_some(),
            os_version: osv,
        },
        VInstaller(w.clone()),
        VTimer(w.clone()),
        VMetrics(w.clone()),
        Rc::new(futures::lock::Mutex::new(VStorage(w.clone()))),
        config,
        Rc::new(futures::lock::Mutex::new(VAppSet { apps, sys })),
        handler,
    );
    if get("mode").as_str() == Some("oneshot") {
        let s = futures::executor::block_on(builder.oneshot_check());
        (None, s.boxed_local())
    } else {
        let (h, s) = futures::executor::block_on(builder.start());
        (Some(h), s.boxed_local())
    }
}

// ---------------------------------------------------------------- event projection

fn state_j(s: &State) -> Value {
    match s {
        State::Idle => json!({"s": "Idle"}),
        State::CheckingForUpdates(src) => json!({"s": "Checking", "src": src_j(*src)}),
        State::ErrorCheckingForUpdate => json!({"s": "Error"}),
        State::NoUpdateAvailable => json!({"s": "NoUpdate"}),
        State::InstallationDeferredByPolicy => json!({"s": "Deferred"}),
        State::InstallingUpdate => json!({"s": "Installing"}),
        State::WaitingForReboot => json!({"s": "WaitingForReboot"}),
        State::InstallationError => json!({"s": "InstallationError"}),
    }
}

fn action_j(a: &update_check::Action) -> &'static str {
    match a {
        update_check::Action::NoUpdate => "noupdate",
        update_check::Action::DeferredByPolicy => "deferred",
        update_check::Action::DeniedByPolicy => "denied",
        update_check::Action::InstallPlanExecutionError => "failed",
        update_check::Action::Updated => "updated",
    }
}

fn status_j(s: &omaha_client::protocol::response::OmahaStatus) -> Value {
    use omaha_client::protocol::response::OmahaStatus::*;
    match s {
        Ok => json!("ok"),
        Restricted => json!("restricted"),
        NoUpdate => json!("noupdate"),
        Error(e) => json!(e),
    }
}

fn event_j(g: &World, e: &StateMachineEvent) -> Value {
    let mut v = match e {
        StateMachineEvent::StateChange(s) => {
            let mut m = state_j(s);
            m["e"] = json!("state");
            m
        }
        StateMachineEvent::ScheduleChange(s) => {
            let mut m = sched_j(g, s);
            m["e"] = json!("sched");
            m
        }
        StateMachineEvent::ProtocolStateChange(p) => {
            let mut m = ps_j(p);
            m["e"] = json!("pstate");
            m
        }
        StateMachineEvent::UpdateCheckResult(r) => match r {
            Ok(resp) => json!({"e": "result", "ok": true, "err": "None",
                "apps": resp.app_responses.iter().map(|a| json!({"id": a.app_id, "action": action_j(&a.result),
                    "cohort": cohort_j(&a.cohort), "uc": uc_j(&a.user_counting)})).collect::<Vec<_>>()}),
            Err(e) => {
                let cls = match e {
                    UpdateCheckError::OmahaRequest(r) => match r {
                        OmahaRequestError::Json(_) => "json",
                        OmahaRequestError::HttpBuilder(_) => "build",
                        OmahaRequestError::CupDecoration(_) => "cupdec",
                        OmahaRequestError::CupValidation(_) => "cupval",
                        OmahaRequestError::HttpTransport(_) => "transport",
                        OmahaRequestError::HttpStatus(_) => "status",
                    },
                    UpdateCheckError::ResponseParser(_) => "parse",
                    UpdateCheckError::InstallPlan(_) => "plan",
                };
                json!({"e": "result", "ok": false, "err": cls, "apps": []})
            }
        },
        StateMachineEvent::InstallProgressChange(p) => {
            json!({"e": "progress", "p": (p.progress * 1000.0).round() as i64})
        }
        StateMachineEvent::OmahaServerResponse(r) => json!({"e": "resp",
            "days": opt_json(r.daystart.as_ref().and_then(|d| d.elapsed_days).map(|d| int_json(d as i128))),
            "apps": r.apps.iter().map(|a| json!({"id": a.id, "status": status_j(&a.status),
                "cohort": cohort_j(&a.cohort),
                "uc": a.update_check.as_ref().map(|u| status_j(&u.status)).unwrap_or(json!("None")),
                "ver": a.get_manifest_version().map(|v| json!(v)).unwrap_or(json!("None"))})).collect::<Vec<_>>()}),
        StateMachineEvent::InstallerError(e) => {
            json!({"e": "insterr", "msg": e.as_ref().map(|x| x.to_string()).unwrap_or("None".into())})
        }
    };
    v["k"] = json!("ev");
    v
}

// ---------------------------------------------------------------- the driver

type CtlFut = Pin<Box<dyn Future<Output = Result<StartUpdateCheckResponse, StateMachineGone>>>>;

struct Driver {
    w: W,
    cfg: Value,
    stims: Vec<Value>,
    root: Arc<RootWake>,
    waker: Waker,
    stream: Option<EvStream>,
    handles: Vec<Option<ControlHandle>>,
    ctl: Vec<(usize, CtlFut)>,
    next_req: usize,
    in_check: bool,
    ev_n: usize,
    idle_n: usize,
    end_n: usize,
    cursors: std::collections::HashMap<String, usize>,
    last_seen_wakes: usize,
    need_poll: bool,
    ended: bool,
    /// A slow consumer: the stream is not polled for this many driver steps although it has been woken, so that
    /// several things (timer fires, requests, completions) are ready at once when it is polled again.
    hold: usize,
}

fn sval_from(v: &Value) -> Option<SVal> {
    if let Some(i) = v.get("i") {
        return match i {
            Value::String(s) => s.parse::<i64>().ok().map(SVal::I),
            Value::Number(n) => n.as_i64().map(SVal::I),
            _ => None,
        };
    }
    if let Some(s) = v.get("s").and_then(|x| x.as_str()) {
        return Some(SVal::S(s.to_string()));
    }
    if let Some(b) = v.get("b").and_then(|x| x.as_bool()) {
        return Some(SVal::B(b));
    }
    None
}

impl Driver {
    fn emit(&self, v: Value) {
        lk(&self.w).emit(v);
    }

    fn poll_ctl(&mut self) {
        let nw = futures::task::noop_waker();
        let mut cx = Context::from_waker(&nw);
        let mut i = 0;
        while i < self.ctl.len() {
            let r = self.ctl[i].1.as_mut().poll(&mut cx);
            match r {
                Poll::Ready(res) => {
                    let id = self.ctl[i].0;
                    let a = match res {
                        Ok(StartUpdateCheckResponse::Started) => "started",
                        Ok(StartUpdateCheckResponse::AlreadyRunning) => "already",
                        Ok(StartUpdateCheckResponse::Throttled) => "throttled",
                        Err(StateMachineGone) => "gone",
                    };
                    self.emit(json!({"k": "ctl.reply", "req": id, "ans": a}));
                    drop(self.ctl.remove(i));
                }
                Poll::Pending => i += 1,
            }
        }
    }

    fn start_run(&mut self, run: &Value) {
        {
            let mut g = lk(&self.w);
            g.run += 1;
            g.pending = None;
        }
        let (h, s) = build(&self.w, &self.cfg, run);
        self.stream = Some(s);
        if let Some(h) = h {
            // handle 0 of this run replaces the previous base handles
            self.handles = vec![Some(h.clone()), Some(h)];
        } else {
            self.handles = vec![];
        }
        self.need_poll = true;
        self.in_check = false;
        self.ended = false;
    }

    fn crash(&mut self, at: &str) {
        self.stream = None; // the state machine dies at its current await
        let mut g = lk(&self.w);
        g.store.pending = g.store.committed.clone();
        g.pending = None;
        for t in g.timers.iter_mut() {
            t.fired = true;
        }
        g.emit(json!({"k": "crash", "at": at}));
    }

    fn fire(&mut self, sel: &Value) {
        let mut g = lk(&self.w);
        let run = g.run;
        let pick: Option<usize> = {
            let cands: Vec<usize> = g
                .timers
                .iter()
                .enumerate()
                .filter(|(_, t)| !t.fired && t.run == run)
                .map(|(i, _)| i)
                .collect();
            match sel.get("sel").and_then(|x| x.as_str()).unwrap_or("newest") {
                "until" => cands.iter().rev().find(|i| g.timers[**i].until).cloned(),
                "for" => {
                    let secs = sel.get("secs").and_then(|x| x.as_u64());
                    cands
                        .iter()
                        .rev()
                        .find(|i| !g.timers[**i].until && (secs.is_none() || g.timers[**i].secs == secs))
                        .cloned()
                }
                "tid" => sel
                    .get("tid")
                    .and_then(|x| x.as_u64())
                    .map(|t| t as usize - 1)
                    .filter(|i| cands.contains(i)),
                "oldest" => cands.first().cloned(),
                _ => cands.last().cloned(),
            }
        };
        if let Some(i) = pick {
            g.timers[i].fired = true;
            let gate = g.timers[i].gate;
            g.emit(json!({"k": "tm.fire", "tid": i + 1}));
            if g.auto_tick {
                g.tick(1, 1);
            }
            g.open_gate(gate);
        } else {
            g.emit(json!({"k": "tm.nofire", "sel": sel.clone()}));
        }
    }

    fn do_stim(&mut self, st: &Value, at: &str) -> bool {
        // returns false if the scenario must end
        match st["s"].as_str().unwrap_or("") {
            "fire" => self.fire(st),
            "ctl" => {
                let h = st["h"].as_u64().unwrap_or(0) as usize;
                let src = if st["src"] == "ondemand" {
                    InstallSource::OnDemand
                } else {
                    InstallSource::ScheduledTask
                };
                self.next_req += 1;
                let id = self.next_req;
                match self.handles.get(h).and_then(|x| x.as_ref()) {
                    Some(base) => {
                        let mut c = base.clone();
                        self.emit(json!({"k": "ctl.send", "req": id, "h": h, "src": src_j(src)}));
                        let fut: CtlFut = Box::pin(async move { c.start_update_check(CheckOptions { source: src }).await });
                        self.ctl.push((id, fut));
                        self.poll_ctl();
                    }
                    None => self.emit(json!({"k": "ctl.nohandle", "h": h})),
                }
            }
            "drop" => {
                let h = st["h"].as_u64().unwrap_or(0) as usize;
                if let Some(slot) = self.handles.get_mut(h) {
                    *slot = None;
                }
                self.emit(json!({"k": "ctl.drop", "h": h}));
            }
            "clock" => {
                let mut g = lk(&self.w);
                let dw = st["dw"].as_i64().unwrap_or(0);
                let dm = st["dm"].as_i64().unwrap_or(0);
                g.tick(dw, dm);
                g.emit(json!({"k": "clock", "dw": int_json(dw as i128), "dm": int_json(dm as i128)}));
            }
            "restart" | "crash" => {
                self.crash(at);
                self.poll_ctl();
                let run = st.get("run").cloned().unwrap_or(json!({}));
                let cfgv = run_cfg_j(&self.cfg, &run);
                self.start_run(&run);
                let snap = snap_j(&lk(&self.w).store.committed);
                self.emit(json!({"k": "restart", "run": cfgv, "store": snap}));
            }
            "hold" => {
                self.hold = st["n"].as_u64().unwrap_or(1) as usize;
                self.emit(json!({"k": "hold", "n": self.hold}));
            }
            "dropstream" => {
                self.stream = None;
                self.emit(json!({"k": "dropstream"}));
            }
            "end" => {
                self.emit(json!({"k": "cut"}));
                return false;
            }
            _ => {}
        }
        true
    }

    /// The next stimulus scripted for this blocking point, one per stall: the machine is polled between two
    /// stimuli of the same point, as it would be between two events of its environment.
    fn stimuli_at(&mut self, p: &str, n: usize) -> Option<Vec<Value>> {
        let key = format!("{}#{}", p, n);
        let mut all = vec![];
        for s in &self.stims {
            if s["at"]["p"] == p && s["at"]["n"].as_u64() == Some(n as u64) {
                all.extend(s["do"].as_array().cloned().unwrap_or_default());
            }
        }
        let cursor = self.cursors.entry(key).or_insert(0);
        if *cursor < all.len() {
            *cursor += 1;
            Some(vec![all[*cursor - 1].clone()])
        } else {
            None
        }
    }

    fn has_remaining(&self, p: &str, n: usize) -> bool {
        let key = format!("{}#{}", p, n);
        let total: usize = self
            .stims
            .iter()
            .filter(|s| s["at"]["p"] == p && s["at"]["n"].as_u64() == Some(n as u64))
            .map(|s| s["do"].as_array().map(|a| a.len()).unwrap_or(0))
            .sum();
        self.cursors.get(&key).cloned().unwrap_or(0) < total && n > 0
    }

    fn run(&mut self) {
        let mut iters = 0usize;
        loop {
            iters += 1;
            if iters > 200_000 {
                self.emit(json!({"k": "hang", "what": "runaway"}));
                return;
            }
            let wakes = self.root.count.load(Ordering::SeqCst);
            let woken = wakes != self.last_seen_wakes;
            let mut polled_pending = false;
            let held = self.hold > 0;
            if held {
                self.hold -= 1;
            }
            if self.stream.is_some() && !self.ended && (self.need_poll || woken) && !held {
                self.last_seen_wakes = wakes;
                self.need_poll = false;
                let mut cx = Context::from_waker(&self.waker);
                let r = self.stream.as_mut().unwrap().as_mut().poll_next(&mut cx);
                match r {
                    Poll::Ready(Some(ev)) => {
                        let j = {
                            let g = lk(&self.w);
                            event_j(&g, &ev)
                        };
                        if j["e"] == "state" && j["s"] == "Checking" {
                            self.in_check = true;
                        }
                        if j["e"] == "result" {
                            self.in_check = false;
                        }
                        self.emit(j);
                        self.ev_n += 1;
                        self.need_poll = true;
                        self.poll_ctl();
                        let n = self.ev_n;
                        if let Some(sts) = self.stimuli_at("ev", n) {
                            for st in sts {
                                if !self.do_stim(&st, "ev") {
                                    return;
                                }
                            }
                        }
                        continue;
                    }
                    Poll::Ready(None) => {
                        self.emit(json!({"k": "ev.end"}));
                        self.ended = true;
                        self.stream = None; // the finished machine is dropped
                        self.poll_ctl();
                        self.end_n += 1;
                        let n = self.end_n;
                        match self.stimuli_at("end", n) {
                            Some(sts) => {
                                for st in sts {
                                    if !self.do_stim(&st, "end") {
                                        return;
                                    }
                                }
                                continue;
                            }
                            None => return,
                        }
                    }
                    Poll::Pending => {
                        polled_pending = true;
                    }
                }
            }
            let _ = polled_pending;
            self.poll_ctl();
            if self.stream.is_none() {
                // machine gone (dropstream / ended): only stimuli can follow
                if !self.has_remaining("idle", self.idle_n) {
                    self.idle_n += 1;
                }
                let n = self.idle_n;
                match self.stimuli_at("idle", n) {
                    Some(sts) => {
                        for st in sts {
                            if !self.do_stim(&st, "idle") {
                                return;
                            }
                        }
                        self.poll_ctl();
                        continue;
                    }
                    None => return,
                }
            }
            // The machine is blocked.  Where?
            let pend = {
                let g = lk(&self.w);
                g.pending.as_ref().map(|p| (p.gate, p.kind.clone(), p.n))
            };
            match pend {
                Some((gate, kind, n)) => {
                    if let Some(sts) = self.stimuli_at(&kind, n) {
                        for st in sts {
                            if !self.do_stim(&st, &format!("{}#{}", kind, n)) {
                                return;
                            }
                        }
                        self.poll_ctl();
                        continue;
                    }
                    // complete the operation
                    let before = self.root.count.load(Ordering::SeqCst);
                    let already_open = lk(&self.w).gates[gate].open;
                    if already_open && held {
                        // completed while the consumer was held back: let it poll now
                        self.hold = 0;
                        continue;
                    }
                    if already_open {
                        // we opened it and the machine has not moved: lost wake-up
                        self.emit(json!({"k": "hang", "what": "lost-wakeup", "op": kind}));
                        self.need_poll = true; // force a poll so the rest of the run is still observed
                        continue;
                    }
                    lk(&self.w).open_gate(gate);
                    let after = self.root.count.load(Ordering::SeqCst);
                    if after == before {
                        self.emit(json!({"k": "hang", "what": "no-wake", "op": kind}));
                        self.need_poll = true;
                    }
                }
                None => {
                    // an idle point keeps its number while stimuli scripted for it remain
                    if !self.has_remaining("idle", self.idle_n) {
                        self.idle_n += 1;
                    }
                    let n = self.idle_n;
                    if let Some(sts) = self.stimuli_at("idle", n) {
                        for st in sts {
                            if !self.do_stim(&st, "idle") {
                                return;
                            }
                        }
                        self.poll_ctl();
                        continue;
                    }
                    if held {
                        // nothing more is scripted here: the slow consumer catches up
                        self.hold = 0;
                        continue;
                    }
                    if self.in_check {
                        // the only timer wait inside a check is the retry back-off
                        let has = {
                            let g = lk(&self.w);
                            g.timers.iter().any(|t| !t.fired && t.run == g.run)
                        };
                        if has {
                            self.fire(&json!({"sel": "newest"}));
                            continue;
                        }
                        self.emit(json!({"k": "hang", "what": "stuck-in-check"}));
                        return;
                    }
                    return;
                }
            }
        }
    }
}

pub fn run_scenario(sc: &Value) -> Vec<String> {
    let env = ScriptEnv {
        ans: sc.get("ans").and_then(|x| x.as_object()).cloned().unwrap_or_default(),
    };
    let w: W = Arc::new(Mutex::new(World::new(Box::new(env))));
    let cfg = sc.get("cfg").cloned().unwrap_or(json!({}));
    {
        let mut g = lk(&w);
        if let Some(st) = cfg.get("storage").and_then(|x| x.as_object()) {
            for (k, v) in st {
                if let Some(sv) = sval_from(v) {
                    g.store.committed.insert(k.clone(), sv.clone());
                    g.store.pending.insert(k.clone(), sv);
                }
            }
        }
        if let Some(t0) = cfg.get("t0").and_then(|x| x.as_i64()) {
            g.tick(t0, t0);
        }
        let snap = snap_j(&g.store.committed);
        let c = run_cfg_j(&cfg, &json!({}));
        g.emit(json!({"k": "cfg", "id": sc.get("id").cloned().unwrap_or(json!("?")), "run": c, "store": snap}));
    }
    let root = Arc::new(RootWake {
        count: std::sync::atomic::AtomicUsize::new(0),
    });
    let waker = Waker::from(root.clone());
    let mut d = Driver {
        w: w.clone(),
        cfg,
        stims: sc.get("stim").and_then(|x| x.as_array()).cloned().unwrap_or_default(),
        root,
        waker,
        stream: None,
        handles: vec![],
        ctl: vec![],
        next_req: 0,
        in_check: false,
        ev_n: 0,
        idle_n: 0,
        end_n: 0,
        cursors: Default::default(),
        last_seen_wakes: 0,
        need_poll: true,
        hold: 0,
        ended: false,
    };
    let r = std::panic::catch_unwind(std::panic::AssertUnwindSafe(|| {
        d.start_run(&json!({}));
        d.run();
    }));
    if let Err(p) = r {
        let msg = p
            .downcast_ref::<String>()
            .cloned()
            .or_else(|| p.downcast_ref::<&str>().map(|s| s.to_string()))
            .unwrap_or_else(|| "panic".into());
        let loc = LAST_PANIC_LOC.with(|c| c.borrow().clone());
        let loc = loc.rsplit("/repo/").next().unwrap_or("").to_string();
        lk(&w).emit(json!({"k": "panic", "msg": msg, "loc": loc}));
    }
    // dropping the driver drops the machine; outstanding control requests then resolve to `gone`
    d.stream = None;
    d.poll_ctl();
    lk(&w).emit(json!({"k": "end"}));
    let lines = std::mem::take(&mut lk(&w).lines);
    lines
}
