//! Function properties: vectors printed by TLC from the TLA+ reference models are run through the real
//! functions; any disagreement is printed as one JSON line {"bad": ..., "vec": ...}.

use serde_json::{json, Value};
use std::io::{BufRead, Write};
use std::panic::{catch_unwind, AssertUnwindSafe};
use std::str::FromStr;

fn vectors(path: &str) -> Vec<Value> {
    let f = std::fs::File::open(path).expect("open vectors");
    std::io::BufReader::new(f)
        .lines()
        .map(|l| l.expect("read"))
        .filter(|l| !l.trim().is_empty())
        .map(|l| serde_json::from_str(&l).expect("vector json"))
        .collect()
}

pub struct Out {
    pub n: usize,
    pub bad: usize,
    w: Box<dyn Write>,
}

impl Out {
    pub fn new(path: &str) -> Out {
        Out {
            n: 0,
            bad: 0,
            w: Box::new(std::io::BufWriter::new(std::fs::File::create(path).expect("create out"))),
        }
    }
    pub fn bad(&mut self, what: &str, vec: &Value, got: Value) {
        self.bad += 1;
        writeln!(self.w, "{}", json!({"bad": what, "vec": vec, "got": got})).unwrap();
    }
    pub fn finish(mut self) {
        writeln!(self.w, "{}", json!({"summary": {"n": self.n, "bad": self.bad}})).unwrap();
        self.w.flush().unwrap();
    }
}

fn guarded<T>(f: impl FnOnce() -> T) -> Result<T, String> {
    catch_unwind(AssertUnwindSafe(f)).map_err(|p| {
        p.downcast_ref::<String>()
            .cloned()
            .or_else(|| p.downcast_ref::<&str>().map(|s| s.to_string()))
            .unwrap_or_else(|| "panic".into())
    })
}

// ------------------------------------------------------------------ C20
pub fn ver(vec_path: &str, out_path: &str) {
    use omaha_client::version::Version;
    let mut out = Out::new(out_path);
    for v in vectors(vec_path) {
        out.n += 1;
        if let Some(s) = v.get("s").and_then(|x| x.as_str()) {
            let verdict = v["v"].as_str().unwrap_or("");
            let r = guarded(|| Version::from_str(s));
            let r = match r {
                Err(p) => {
                    out.bad("panic in from_str", &v, json!(p));
                    continue;
                }
                Ok(r) => r,
            };
            let js = serde_json::to_string(&json!(s)).unwrap();
            let de = guarded(|| serde_json::from_str::<Version>(&js));
            match verdict {
                "ok" => {
                    let p = v["p"].as_str().unwrap_or("");
                    match &r {
                        Ok(ver) => {
                            let printed = ver.to_string();
                            if printed != p {
                                out.bad("print differs from the canonical form", &v, json!(printed));
                            }
                            if format!("{:?}", ver) != p {
                                out.bad("debug print differs", &v, json!(format!("{:?}", ver)));
                            }
                            match Version::from_str(&printed) {
                                Ok(back) if back == *ver => {}
                                _ => out.bad("parse(print(v)) != v", &v, json!(printed)),
                            }
                            match serde_json::to_string(ver) {
                                Ok(j) if j == format!("\"{}\"", p) => {}
                                other => out.bad("JSON serialisation is not the canonical string", &v, json!(format!("{:?}", other))),
                            }
                            // arrays zero-fill
                            let parts: Vec<u32> = p.split('.').map(|x| x.parse::<u32>().unwrap_or(0)).collect();
                            let np = v["np"].as_u64().unwrap_or(4) as usize;
                            let from_arr = match np {
                                1 => Version::from([parts[0]]),
                                2 => Version::from([parts[0], parts[1]]),
                                3 => Version::from([parts[0], parts[1], parts[2]]),
                                _ => Version::from([parts[0], parts[1], parts[2], parts[3]]),
                            };
                            if from_arr != *ver {
                                out.bad("conversion from array differs from parse", &v, json!(from_arr.to_string()));
                            }
                        }
                        Err(e) => out.bad("rejected a valid version string", &v, json!(e.to_string())),
                    }
                    match de {
                        Ok(Ok(d)) if r.as_ref().map(|x| *x == d).unwrap_or(false) => {}
                        other => out.bad("JSON deserialisation differs from parse", &v, json!(format!("{:?}", other.map(|x| x.map(|y| y.to_string()).map_err(|e| e.to_string()))))),
                    }
                }
                "err" => {
                    if let Ok(ver) = &r {
                        out.bad("accepted an invalid version string", &v, json!(ver.to_string()));
                    }
                    if let Ok(Ok(d)) = de {
                        out.bad("JSON deserialisation accepted an invalid version string", &v, json!(d.to_string()));
                    }
                }
                _ => {
                    if let Err(p) = de {
                        out.bad("panic in deserialisation", &v, json!(p));
                    }
                }
            }
        } else {
            let a = Version::from_str(v["a"].as_str().unwrap_or("")).expect("cmp a");
            let b = Version::from_str(v["b"].as_str().unwrap_or("")).expect("cmp b");
            let lt = v["lt"].as_bool().unwrap_or(false);
            let eq = v["eq"].as_bool().unwrap_or(false);
            if (a < b) != lt || (a == b) != eq || (a > b) != (!lt && !eq) || (a.cmp(&b) == std::cmp::Ordering::Less) != lt {
                out.bad("ordering differs from numeric component-wise order", &v, json!({"lt": a < b, "eq": a == b}));
            }
        }
    }
    out.finish();
}

// ------------------------------------------------------------------ C19
mod timeconv {
    use super::*;
    use omaha_client::storage::{MemStorage, Storage, StorageExt};
    use omaha_client::time::system_time_conversion::{
        checked_system_time_to_micros_from_epoch, micros_from_epoch_to_system_time,
    };
    use omaha_client::time::{ComplexTime, PartialComplexTime};
    use std::time::{Duration, Instant, SystemTime};

    fn anchor_us(a: &str, mid: i128) -> i128 {
        match a {
            "MIN" => -(1i128 << 63),
            "MAX" => (1i128 << 63) - 1,
            "MIDP" => 1_700_000_000_000_000 + mid,
            "MIDN" => -(1_000_000_000_000_000 + mid),
            _ => 0,
        }
    }

    fn time_from_ns(ns: i128) -> Option<SystemTime> {
        let abs = ns.unsigned_abs();
        let d = Duration::new((abs / 1_000_000_000) as u64, (abs % 1_000_000_000) as u32);
        if ns >= 0 {
            SystemTime::UNIX_EPOCH.checked_add(d)
        } else {
            SystemTime::UNIX_EPOCH.checked_sub(d)
        }
    }

    fn exp_micros(v: &Value, mid: i128) -> Option<i64> {
        let a = v[0].as_str().unwrap_or("NONE");
        if a == "NONE" {
            None
        } else {
            Some((anchor_us(a, mid) + v[1].as_i64().unwrap_or(0) as i128) as i64)
        }
    }

    // The model's time unit is abstract: every vector is run at several concrete granularities (seconds down to
    // single nanoseconds inside one microsecond) and from bases before and after the epoch.
    thread_local! { static UNIT_NS: std::cell::Cell<u64> = std::cell::Cell::new(1_000_000_000); }
    fn units(n: u64) -> Duration {
        Duration::from_nanos(n * UNIT_NS.with(|u| u.get()))
    }

    fn partial(p: &Value, base: SystemTime, i0: Instant) -> PartialComplexTime {
        let w = p["w"].get(0).and_then(|x| x.as_u64()).map(|s| base + units(s));
        let m = p["m"].get(0).and_then(|x| x.as_u64()).map(|s| i0 + units(s));
        match (w, m) {
            (Some(w), Some(m)) => PartialComplexTime::Complex(ComplexTime { wall: w, mono: m }),
            (Some(w), None) => PartialComplexTime::Wall(w),
            (None, Some(m)) => PartialComplexTime::Monotonic(m),
            _ => panic!("empty partial time in vector"),
        }
    }

    fn same(p: PartialComplexTime, exp: &Value, base: SystemTime, i0: Instant) -> bool {
        let (w, m) = p.destructure();
        let ew = exp["w"].get(0).and_then(|x| x.as_i64()).map(|s| base + units(s as u64));
        let em = exp["m"].get(0).and_then(|x| x.as_i64()).map(|s| i0 + units(s as u64));
        w == ew && m == em && p.checked_to_system_time() == ew && p.checked_to_instant() == em
    }

    pub fn run(vec_path: &str, out_path: &str, seed: u64) {
        let mut out = Out::new(out_path);
        let mid = (seed as i128 * 7_919_000_003) % 1_000_000_000_000;
        let base = SystemTime::UNIX_EPOCH + Duration::from_secs(1_700_000_000);
        let i0 = Instant::now() + Duration::from_secs(100);
        for v in vectors(vec_path) {
            out.n += 1;
            let k = v["k"].as_str().unwrap_or("");
            let algebra = matches!(k, "add" | "sub" | "complete" | "after");
            let post = base;
            let pre = SystemTime::UNIX_EPOCH - Duration::new(124, 543_211_200);
            let scales: Vec<(u64, SystemTime)> = if algebra {
                vec![(1_000_000_000, post), (1_000_000_000, pre), (1_000, post + Duration::from_nanos(200)), (250, post + Duration::from_nanos(200)),
                     (250, pre), (1, post + Duration::from_nanos(998)), (1, pre)]
            } else {
                vec![(1_000_000_000, post)]
            };
            for (unit_ns, base) in scales {
            UNIT_NS.with(|u| u.set(unit_ns));
            let r = guarded(|| -> Vec<(String, Value)> {
                let mut bad = vec![];
                match k {
                    "m2t2m" => {
                        let m = (anchor_us(v["a"].as_str().unwrap(), mid) + v["o"].as_i64().unwrap() as i128) as i64;
                        let t = micros_from_epoch_to_system_time(m);
                        let back = checked_system_time_to_micros_from_epoch(t);
                        if back != Some(m) {
                            bad.push(("micros -> time -> micros is not the identity".to_string(), json!({"m": m.to_string(), "back": format!("{:?}", back)})));
                        }
                        if PartialComplexTime::from_micros_since_epoch(m).checked_to_micros_since_epoch() != Some(m) {
                            bad.push(("PartialComplexTime micros round trip is not the identity".to_string(), json!(m.to_string())));
                        }
                        let mut st = MemStorage::new();
                        futures::executor::block_on(async {
                            st.set_time("k", t).await.unwrap();
                            st.commit().await.unwrap();
                            let got = st.get_time("k").await;
                            if got != Some(t) {
                                bad.push(("stored time does not reload to the same instant".to_string(), json!(format!("{:?} vs {:?}", got, t))));
                            }
                        });
                    }
                    "t2m" => {
                        let us = anchor_us(v["a"].as_str().unwrap(), mid) + v["o"].as_i64().unwrap() as i128;
                        let ns = us * 1000 + v["sub"].as_i64().unwrap() as i128;
                        let t = match time_from_ns(ns) {
                            Some(t) => t,
                            None => return bad, // not representable on this platform: outside the property
                        };
                        let exp = exp_micros(&v["exp"], mid);
                        let got = checked_system_time_to_micros_from_epoch(t);
                        if got != exp {
                            bad.push(("time -> micros does not truncate toward the epoch / none exactly when it does not fit".to_string(),
                                      json!({"ns": ns.to_string(), "got": format!("{:?}", got), "exp": format!("{:?}", exp)})));
                        }
                        if PartialComplexTime::Wall(t).checked_to_micros_since_epoch() != exp {
                            bad.push(("PartialComplexTime::checked_to_micros_since_epoch differs".to_string(), json!(ns.to_string())));
                        }
                        let texp = exp_micros(&json!([v["trunc"][0], v["trunc"][1]]), mid).map(micros_from_epoch_to_system_time);
                        let c = ComplexTime { wall: t, mono: i0 };
                        let tr = c.truncate_submicrosecond_walltime();
                        if let Some(te) = texp {
                            if tr.wall != te || tr.mono != i0 {
                                bad.push(("truncate_submicrosecond_walltime disagrees with the storage round trip".to_string(),
                                          json!({"ns": ns.to_string(), "got": format!("{:?}", tr.wall), "exp": format!("{:?}", te)})));
                            }
                            if tr.truncate_submicrosecond_walltime() != tr {
                                bad.push(("truncate_submicrosecond_walltime is not idempotent".to_string(), json!(ns.to_string())));
                            }
                        }
                        let mut st = MemStorage::new();
                        futures::executor::block_on(async {
                            let _ = st.set_time("k", t).await;
                            st.commit().await.unwrap();
                            let got = st.get_time("k").await;
                            if got != texp {
                                bad.push(("storing and reloading a time does not give the instant at microsecond precision".to_string(),
                                          json!({"ns": ns.to_string(), "got": format!("{:?}", got), "exp": format!("{:?}", texp)})));
                            }
                        });
                    }
                    "add" | "sub" => {
                        let p = partial(&v["p"], base, i0);
                        let d = units(v["d"].as_u64().unwrap());
                        let r = if k == "add" { p + d } else { p - d };
                        let mut r2 = p;
                        if k == "add" {
                            r2 += d;
                        } else {
                            r2 -= d;
                        }
                        if !same(r, &v["exp"], base, i0) || r2 != r {
                            bad.push(("add/sub does not act on exactly the components present".to_string(), json!(format!("{:?}", r))));
                        }
                        if let PartialComplexTime::Complex(c) = p {
                            let rc = if k == "add" { c + d } else { c - d };
                            if !same(PartialComplexTime::Complex(rc), &v["exp"], base, i0) {
                                bad.push(("ComplexTime add/sub differs".to_string(), json!(format!("{:?}", rc))));
                            }
                        }
                    }
                    "complete" => {
                        let p = partial(&v["p"], base, i0);
                        let c = match partial(&v["c"], base, i0) {
                            PartialComplexTime::Complex(c) => c,
                            _ => panic!("complete: c must be complete"),
                        };
                        let r = p.complete_with(c);
                        if !same(PartialComplexTime::Complex(r), &v["exp"], base, i0) {
                            bad.push(("complete_with does not keep the components present".to_string(), json!(format!("{:?}", r))));
                        }
                    }
                    _ => {
                        let c = match partial(&v["c"], base, i0) {
                            PartialComplexTime::Complex(c) => c,
                            _ => panic!("after: c must be complete"),
                        };
                        let p = partial(&v["p"], base, i0);
                        let r = c.is_after_or_eq_any(p);
                        if Some(r) != v["exp"].as_bool() {
                            bad.push((format!("is_after_or_eq_any differs (time unit {} ns, base {:?})", unit_ns, base), json!(r)));
                        }
                    }
                }
                bad
            });
            match r {
                Ok(bads) => {
                    for (w, g) in bads {
                        out.bad(&w, &v, g);
                    }
                }
                Err(p) => out.bad("panic", &v, json!(p)),
            }
            }
        }
        out.finish();
    }
}
pub use timeconv::run as time;

// ------------------------------------------------------------------ C13 (generator)
mod gen {
    use super::*;
    use futures::prelude::*;
    use futures::task::{Context, Poll};
    use omaha_client::async_generator::{generate, GeneratorState};
    use std::cell::{Cell, RefCell};
    use std::pin::Pin;
    use std::rc::Rc;
    use std::sync::atomic::{AtomicUsize, Ordering};
    use std::sync::Arc;
    use std::task::{Wake, Waker};

    struct Count(AtomicUsize);
    impl Wake for Count {
        fn wake(self: Arc<Self>) {
            self.0.fetch_add(1, Ordering::SeqCst);
        }
        fn wake_by_ref(self: &Arc<Self>) {
            self.0.fetch_add(1, Ordering::SeqCst);
        }
    }

    #[derive(Default)]
    struct Gates {
        open: [bool; 3],
        waker: [Option<Waker>; 3],
    }

    struct GateFut(Rc<RefCell<Gates>>, usize);
    impl Future for GateFut {
        type Output = ();
        fn poll(self: Pin<&mut Self>, cx: &mut Context<'_>) -> Poll<()> {
            let mut g = self.0.borrow_mut();
            if g.open[self.1] {
                Poll::Ready(())
            } else {
                g.waker[self.1] = Some(cx.waker().clone());
                Poll::Pending
            }
        }
    }

    fn yield_once() -> impl Future<Output = ()> {
        let mut done = false;
        future::poll_fn(move |cx: &mut Context<'_>| {
            if !done {
                done = true;
                cx.waker().wake_by_ref();
                Poll::Pending
            } else {
                Poll::Ready(())
            }
        })
    }

    type Prog = Vec<(String, usize)>;

    fn prog_of(v: &Value) -> Prog {
        v["prog"]
            .as_array()
            .cloned()
            .unwrap_or_default()
            .iter()
            .map(|o| (o["op"].as_str().unwrap_or("R").to_string(), o["g"].as_u64().unwrap_or(0) as usize))
            .collect()
    }

    fn make(
        prog: Prog,
        gates: Rc<RefCell<Gates>>,
        pos: Rc<Cell<usize>>,
    ) -> omaha_client::async_generator::Generator<impl Future<Output = &'static str>, u32, &'static str> {
        generate(move |co| async move {
            let mut co = Some(co);
            let mut ny = 0u32;
            let n = prog.len();
            for (i, (op, g)) in prog.into_iter().enumerate() {
                pos.set(i + 1);
                match op.as_str() {
                    "Y" => {
                        ny += 1;
                        co.as_mut().expect("yield after drop").yield_(ny).await;
                    }
                    "YA" => {
                        let items: Vec<u32> = (1..=g as u32).map(|k| ny + k).collect();
                        ny += g as u32;
                        co.as_mut().expect("yield after drop").yield_all(items).await;
                    }
                    "SW" => yield_once().await,
                    "W" => GateFut(gates.clone(), g).await,
                    "DH" => {
                        co.take();
                    }
                    _ => {}
                }
            }
            pos.set(n + 1);
            "done"
        })
    }

    pub fn run(vec_path: &str, out_path: &str) {
        let mut out = Out::new(out_path);
        for v in vectors(vec_path) {
            out.n += 1;
            let r = guarded(|| -> Vec<(String, Value)> {
                let mut bad = vec![];
                let hist = v["hist"].as_array().cloned().unwrap_or_default();
                // ---- raw generator: every poll result, wake-up and task position against the model
                {
                    let gates = Rc::new(RefCell::new(Gates::default()));
                    let pos = Rc::new(Cell::new(0usize));
                    let cnt = Arc::new(Count(AtomicUsize::new(0)));
                    let waker = Waker::from(cnt.clone());
                    let mut s = Box::pin(make(prog_of(&v), gates.clone(), pos.clone()));
                    let mut woken = false;
                    for (i, h) in hist.iter().enumerate() {
                        let before = cnt.0.load(Ordering::SeqCst);
                        if h["a"] == "poll" {
                            woken = false;
                            let mut cx = Context::from_waker(&waker);
                            let (res, val) = match s.as_mut().poll_next(&mut cx) {
                                Poll::Pending => ("pending", 0),
                                Poll::Ready(None) => ("none", 0),
                                Poll::Ready(Some(GeneratorState::Yielded(x))) => ("item", x),
                                Poll::Ready(Some(GeneratorState::Complete(_))) => ("complete", 0),
                            };
                            if h["res"] != res || h["v"].as_u64() != Some(val as u64) {
                                bad.push((format!("poll #{} returned {} {} (model: {} {})", i + 1, res, val, h["res"], h["v"]), json!(i)));
                                break;
                            }
                            if let Some(t) = h["term"].as_bool() {
                                if futures::stream::FusedStream::is_terminated(&*s) != t {
                                    bad.push((format!("after poll #{} is_terminated() is {} (model: {}): a consumer that trusts it stops too early / never stops", i + 1, !t, t), json!(i)));
                                    break;
                                }
                            }
                            let ip = if pos.get() == 0 { 1 } else { pos.get() };
                            if h["ip"].as_u64() != Some(ip as u64) {
                                bad.push((format!("after poll #{} the task is at op {} (model: {}): the producer ran ahead of / behind its consumer", i + 1, ip, h["ip"]), json!(i)));
                                break;
                            }
                        } else {
                            let g = h["g"].as_u64().unwrap_or(0) as usize;
                            let w = {
                                let mut gs = gates.borrow_mut();
                                gs.open[g] = true;
                                gs.waker[g].take()
                            };
                            if let Some(w) = w {
                                w.wake();
                            }
                        }
                        if cnt.0.load(Ordering::SeqCst) != before {
                            woken = true;
                        }
                        if h["wokenAfter"] == true && !woken {
                            bad.push((format!("lost wake-up at step #{}: the model's stream is woken, the implementation's is not", i + 1), json!(i)));
                            break;
                        }
                    }
                }
                // ---- into_yielded: items then end of stream (the completion is swallowed)
                {
                    let gates = Rc::new(RefCell::new(Gates::default()));
                    let pos = Rc::new(Cell::new(0usize));
                    let waker = futures::task::noop_waker();
                    let prog = prog_of(&v);
                    let unit_prog = prog.clone();
                    let g2 = gates.clone();
                    let p2 = pos.clone();
                    let gen = generate(move |co| async move {
                        let mut co = Some(co);
                        let mut ny = 0u32;
                        for (i, (op, g)) in unit_prog.into_iter().enumerate() {
                            p2.set(i + 1);
                            match op.as_str() {
                                "Y" => {
                                    ny += 1;
                                    co.as_mut().expect("yield after drop").yield_(ny).await;
                                }
                                "YA" => {
                                    let items: Vec<u32> = (1..=g as u32).map(|k| ny + k).collect();
                                    ny += g as u32;
                                    co.as_mut().expect("yield after drop").yield_all(items).await;
                                }
                                "SW" => yield_once().await,
                                "W" => GateFut(g2.clone(), g).await,
                                "DH" => {
                                    co.take();
                                }
                                _ => {}
                            }
                        }
                    });
                    let mut s = Box::pin(gen.into_yielded());
                    for (i, h) in hist.iter().enumerate() {
                        if h["a"] == "poll" {
                            let mut cx = Context::from_waker(&waker);
                            let res = match s.as_mut().poll_next(&mut cx) {
                                Poll::Pending => "pending".to_string(),
                                Poll::Ready(None) => "none".to_string(),
                                Poll::Ready(Some(x)) => format!("item{}", x),
                            };
                            let exp = match h["res"].as_str().unwrap_or("") {
                                "item" => format!("item{}", h["v"]),
                                "complete" => "none".to_string(),
                                x => x.to_string(),
                            };
                            if res != exp {
                                bad.push((format!("into_yielded poll #{} returned {} (model: {})", i + 1, res, exp), json!(i)));
                                break;
                            }
                        } else {
                            let g = h["g"].as_u64().unwrap_or(0) as usize;
                            let w = {
                                let mut gs = gates.borrow_mut();
                                gs.open[g] = true;
                                gs.waker[g].take()
                            };
                            if let Some(w) = w {
                                w.wake();
                            }
                        }
                    }
                    let _ = prog;
                }
                // ---- into_complete: polled only when woken; must complete once every gate has been fired
                {
                    let gates = Rc::new(RefCell::new(Gates::default()));
                    let pos = Rc::new(Cell::new(0usize));
                    let cnt = Arc::new(Count(AtomicUsize::new(0)));
                    let waker = Waker::from(cnt.clone());
                    let prog = prog_of(&v);
                    let needs: Vec<usize> = prog.iter().filter(|(o, _)| o == "W").map(|(_, g)| *g).collect();
                    let mut f = Box::pin(make(prog, gates.clone(), pos.clone()).into_complete());
                    let mut done = None;
                    let mut seen = 0;
                    let mut first = true;
                    let mut fires: Vec<usize> = hist.iter().filter(|h| h["a"] == "fire").map(|h| h["g"].as_u64().unwrap() as usize).collect();
                    for g in needs {
                        if !fires.contains(&g) {
                            fires.push(g);
                        }
                    }
                    let mut fi = 0;
                    for _ in 0..200 {
                        let c = cnt.0.load(Ordering::SeqCst);
                        if first || c != seen {
                            first = false;
                            seen = c;
                            let mut cx = Context::from_waker(&waker);
                            if let Poll::Ready(r) = f.as_mut().poll(&mut cx) {
                                done = Some(r);
                                break;
                            }
                            continue;
                        }
                        if fi < fires.len() {
                            let g = fires[fi];
                            fi += 1;
                            let w = {
                                let mut gs = gates.borrow_mut();
                                gs.open[g] = true;
                                gs.waker[g].take()
                            };
                            if let Some(w) = w {
                                w.wake();
                            }
                        } else {
                            break;
                        }
                    }
                    if done != Some("done") {
                        bad.push(("into_complete did not complete although every awaited gate was fired (lost wake-up or deadlock)".to_string(), json!(pos.get())));
                    }
                }
                bad
            });
            match r {
                Ok(bads) => {
                    for (w, g) in bads {
                        out.bad(&w, &v, g);
                    }
                }
                Err(p) => out.bad("panic", &v, json!(p)),
            }
        }
        out.finish();
    }
}
pub use gen::run as generator;

// ------------------------------------------------------------------ C01 / C03(a)
mod cup {
    use super::*;
    use crate::doubles::{public_keys, split_url};
    use crate::signer;
    use omaha_client::cup_ecdsa::{
        Cupv2RequestHandler, Cupv2Verifier, Nonce, RequestMetadata, StandardCupv2Handler,
    };
    use omaha_client::protocol::request::RequestWrapper;
    use omaha_client::request_builder::Intermediate;
    use p256::ecdsa::signature::Signer;
    use p256::ecdsa::{DerSignature, Signature};
    use sha2::{Digest, Sha256};
    use std::convert::TryFrom;

    fn body(b: &str) -> Vec<u8> {
        match b {
            "b1" => br#"{"request":{"protocol":"3.0","app":[{"appid":"a"}]}}"#.to_vec(),
            "b2" => br#"{"response":{"protocol":"3.0","app":[{"appid":"a","status":"ok"}]}}"#.to_vec(),
            "b3" => {
                let mut v = b")]}'\n".to_vec();
                v.extend_from_slice(br#"{"response":{"protocol":"3.0","app":[{"appid":"a","status":"ok"}]}}"#);
                v
            }
            _ => vec![],
        }
    }
    fn nonce(n: &str) -> [u8; 32] {
        let mut x = [0u8; 32];
        for (i, b) in x.iter_mut().enumerate() {
            *b = if n == "n1" { 0x11 ^ (i as u8) } else { 0xa2 ^ (i as u8).wrapping_mul(3) };
        }
        x
    }
    fn kids(v: &Value) -> Vec<u64> {
        v.as_array().map(|a| a.iter().filter_map(|x| x.as_u64()).collect()).unwrap_or_default()
    }

    fn raw_sign(key: u8, digest: &[u8]) -> Signature {
        signer::key(key).sign(digest)
    }

    fn compose(x: &Value) -> Vec<u8> {
        let mut h = Sha256::new();
        for c in x["sOrder"].as_array().cloned().unwrap_or_default() {
            match c.as_str().unwrap_or("") {
                "req" => h.update(signer::sha(&body(x["sReq"].as_str().unwrap()))),
                "resp" => h.update(signer::sha(&body(x["sResp"].as_str().unwrap()))),
                _ => h.update(format!("{}:{}", x["sKid"], hex::encode(nonce(x["sNonce"].as_str().unwrap()))).as_bytes()),
            }
        }
        h.finalize().to_vec()
    }

    fn sig_bytes(form: &str, sig: &Signature) -> Vec<u8> {
        let der = sig.to_der().as_bytes().to_vec();
        match form {
            "twin" => {
                // (r, n - s): the malleable twin, also valid under the key
                let r = sig.r();
                let s = sig.s();
                let neg = -*s;
                let t = Signature::from_scalars(*r, neg).expect("twin");
                t.to_der().as_bytes().to_vec()
            }
            "bitflip" => {
                let mut d = der;
                let i = d.len() / 2;
                d[i] ^= 0x01;
                d
            }
            "trunc" => der[..der.len() - 1].to_vec(),
            "trailing" => {
                let mut d = der;
                d.push(0);
                d
            }
            "rawrs" => sig.as_ref().to_vec(),
            "garbage" => vec![0x30, 0x06, 0x02, 0x01, 0x01, 0x02, 0x01],
            _ => der,
        }
    }

    fn etag_text(sig_hex: &str, hash_hex: &str, shape: &str, wrap: &str) -> String {
        let core = match shape {
            "upper" => format!("{}:{}", sig_hex.to_uppercase(), hash_hex.to_uppercase()),
            "nocolon" => format!("{}{}", sig_hex, hash_hex),
            "twocolons" => format!("{}:{}:00", sig_hex, hash_hex),
            "nonhex" => format!("{}:{}z", sig_hex, &hash_hex[..hash_hex.len().saturating_sub(1)]),
            "nonhexsig" => format!("z{}:{}", &sig_hex[1.min(sig_hex.len())..], hash_hex),
            "oddlen" => format!("{}:{}", sig_hex, &hash_hex[..hash_hex.len().saturating_sub(1)]),
            "emptysig" => format!(":{}", hash_hex),
            "emptyhash" => format!("{}:", sig_hex),
            _ => format!("{}:{}", sig_hex, hash_hex),
        };
        match wrap {
            "quoted" => format!("\"{}\"", core),
            "weak" => format!("W/\"{}\"", core),
            "weakunclosed" => format!("W/\"{}", core),
            "quoteonly" => "\"".to_string(),
            _ => core,
        }
    }

    fn response(etag: Option<&[u8]>, body: Vec<u8>) -> Option<http::Response<Vec<u8>>> {
        let mut b = http::Response::builder().status(200);
        if let Some(e) = etag {
            b = b.header("ETag", http::HeaderValue::from_bytes(e).ok()?);
        }
        b.body(body).ok()
    }

    /// independent decoder of an ETag text: Some((sig bytes, hash bytes)) when it has the documented shape
    fn decode_etag(t: &[u8]) -> Option<(Vec<u8>, Vec<u8>)> {
        let inner: &[u8] = if t.len() >= 4 && t.starts_with(b"W/\"") && t.ends_with(b"\"") {
            &t[3..t.len() - 1]
        } else if t.len() >= 2 && t.starts_with(b"\"") && t.ends_with(b"\"") {
            &t[1..t.len() - 1]
        } else {
            t
        };
        let c = inner.iter().position(|b| *b == b':')?;
        let unhex = |s: &[u8]| -> Option<Vec<u8>> {
            if s.len() % 2 != 0 {
                return None;
            }
            let v = |c: u8| -> Option<u8> {
                match c {
                    b'0'..=b'9' => Some(c - b'0'),
                    b'a'..=b'f' => Some(c - b'a' + 10),
                    b'A'..=b'F' => Some(c - b'A' + 10),
                    _ => None,
                }
            };
            s.chunks(2).map(|p| Some(v(p[0])? * 16 + v(p[1])?)).collect()
        };
        Some((unhex(&inner[..c])?, unhex(&inner[c + 1..])?))
    }

    pub fn run(vec_path: &str, out_path: &str, seed: u64) {
        let mut out = Out::new(out_path);
        for v in vectors(vec_path) {
            out.n += 1;
            let r = guarded(|| -> Vec<(String, Value)> {
                let mut bad = vec![];
                match v["k"].as_str().unwrap_or("") {
                    "ex" => {
                        let x = &v["x"];
                        let handler = StandardCupv2Handler::new(&public_keys(x["cfgLatest"].as_u64().unwrap(), &kids(&x["cfgHist"])));
                        let digest = compose(x);
                        let sig = raw_sign(x["sKey"].as_u64().unwrap() as u8, &digest);
                        let carried = sig_bytes(x["form"].as_str().unwrap(), &sig);
                        let retained = body(x["retained"].as_str().unwrap());
                        let right = signer::sha(&retained);
                        let hf = x["hashField"].as_str().unwrap();
                        let hash_hex = if hf == "prefix" { hex::encode(&right[..16]) } else { hex::encode(signer::sha(&body(hf))) };
                        let text = etag_text(&hex::encode(&carried), &hash_hex, x["shape"].as_str().unwrap(), x["wrap"].as_str().unwrap());
                        let resp_body = body(x["resp"].as_str().unwrap());
                        let n = nonce(x["nonce"].as_str().unwrap());
                        let meta = RequestMetadata {
                            request_body: retained.clone(),
                            public_key_id: x["kidMeta"].as_u64().unwrap(),
                            nonce: Nonce::from(n),
                        };
                        let resp = response(Some(text.as_bytes()), resp_body.clone()).expect("response");
                        let got = handler.verify_response(&meta, &resp, x["kidPassed"].as_u64().unwrap());
                        let accept = v["accept"].as_bool().unwrap();
                        match (&got, accept) {
                            (Ok(s), true) => {
                                if s.as_bytes() != carried.as_slice() {
                                    bad.push(("the accepted signature is not returned unchanged".into(), json!(hex::encode(s.as_bytes()))));
                                }
                            }
                            (Err(_), false) => {}
                            (Ok(_), false) => bad.push(("accepted an exchange that is not authentic".into(), json!(text))),
                            (Err(e), true) => bad.push(("rejected an authentic exchange".into(), json!(format!("{:?}", e)))),
                        }
                        if let Ok(der) = DerSignature::try_from(carried.as_slice()) {
                            let got2 = handler.verify_response_with_signature(&der, &retained, &resp_body, x["kidPassed"].as_u64().unwrap(), &Nonce::from(n));
                            if got2.is_ok() != v["sigValid"].as_bool().unwrap() {
                                bad.push(("verify_response_with_signature disagrees with the model".into(), json!(format!("{:?}", got2))));
                            }
                        }
                    }
                    "tok" => {
                        let handler = StandardCupv2Handler::new(&public_keys(1, &[]));
                        let req = body("b1");
                        let rb = body("b2");
                        let n = nonce("n1");
                        let (e, _) = signer::etag(&signer::key(1), &req, &rb, &format!("1:{}", hex::encode(n)));
                        let (sig_hex, hash_hex) = e.split_once(':').unwrap();
                        let mut text = String::new();
                        for t in v["ts"].as_array().cloned().unwrap_or_default() {
                            text.push_str(match t.as_str().unwrap_or("") {
                                "W/" => "W/",
                                "Q" => "\"",
                                ":" => ":",
                                "hexlow" => "ab",
                                "hexup" => "AB",
                                "nonhex" => "zz",
                                "SIG" => sig_hex,
                                "HASH" => hash_hex,
                                _ => " ",
                            });
                        }
                        let meta = RequestMetadata { request_body: req, public_key_id: 1, nonce: Nonce::from(n) };
                        let resp = response(Some(text.as_bytes()), rb).expect("response");
                        let got = handler.verify_response(&meta, &resp, 1);
                        if got.is_ok() != v["accept"].as_bool().unwrap() {
                            bad.push(("ETag text verdict differs from the model".into(), json!({"text": text, "got": format!("{:?}", got.map(|_| ()))})));
                        }
                    }
                    "url" => {
                        let u = &v["u"];
                        let q: Vec<String> = u["query"].as_array().map(|a| a.iter().map(|s| s.as_str().unwrap().to_string()).collect()).unwrap_or_default();
                        let base = format!("{}://{}{}{}", u["scheme"].as_str().unwrap(), u["auth"].as_str().unwrap(), u["path"].as_str().unwrap(),
                                           if q.is_empty() { String::new() } else { format!("?{}", q.join("&")) });
                        // key ids are u64: small ones, and ones with the top bit set
                        for (latest, hist) in [(7u64, vec![]), (42u64, vec![7u64]), (1u64 << 63, vec![]), (u64::MAX, vec![42u64]), ((1u64 << 63) - 1, vec![])] {
                            let handler = StandardCupv2Handler::new(&public_keys(latest, &hist));
                            let mut i = Intermediate { uri: base.clone(), headers: vec![], body: RequestWrapper::default() };
                            let meta = match handler.decorate_request(&mut i) {
                                Ok(m) => m,
                                Err(e) => {
                                    bad.push(("decoration failed on a well-formed service URL".into(), json!(format!("{} -> {:?}", base, e))));
                                    continue;
                                }
                            };
                            let d = &v["d"];
                            let exp_pre = format!("{}://{}{}", d["scheme"].as_str().unwrap(), d["auth"].as_str().unwrap(), d["path"].as_str().unwrap());
                            let (pre, pairs) = split_url(&i.uri);
                            let n: [u8; 32] = meta.nonce.into();
                            let mut exp_pairs = q.clone();
                            exp_pairs.push(format!("cup2key={}:{}", latest, hex::encode(n)));
                            if pre != exp_pre || pairs != exp_pairs {
                                bad.push(("decorated URL is not the service URL plus exactly one cup2key parameter".into(), json!({"base": base, "got": i.uri})));
                            }
                            if meta.public_key_id != latest || Some(meta.request_body.clone()) != i.serialize_body().ok() {
                                bad.push(("request metadata does not hold the latest key id / the bytes sent".into(), json!(base)));
                            }
                            let hexn = hex::encode(n);
                            if hexn.len() != 64 || hexn.chars().any(|c| !c.is_ascii_hexdigit() || c.is_ascii_uppercase()) {
                                bad.push(("nonce is not 64 lower-case hex digits".into(), json!(hexn)));
                            }
                        }
                    }
                    "ext" => {
                        use omaha_client::http_uri_ext::HttpUriExt;
                        let q: Vec<String> = v["query"].as_array().map(|a| a.iter().map(|s| s.as_str().unwrap().to_string()).collect()).unwrap_or_default();
                        let qs = if q.is_empty() { String::new() } else { format!("?{}", q.join("&")) };
                        let base = format!("http://{}{}{}", v["auth"].as_str().unwrap(), v["path"].as_str().unwrap(), qs);
                        match base.parse::<http::Uri>() {
                            Ok(u) => match u.extend_dir_with_path(v["sub"].as_str().unwrap()) {
                                Ok(r) => {
                                    let exp = format!("http://{}{}{}", v["auth"].as_str().unwrap(), v["exp"].as_str().unwrap(), qs);
                                    // an absent path is the root path
                                    let exp2 = if v["exp"].as_str().unwrap().is_empty() { format!("http://{}/{}", v["auth"].as_str().unwrap(), qs) } else { exp.clone() };
                                    if r.to_string() != exp && r.to_string() != exp2 {
                                        bad.push(("extend_dir_with_path differs from the model".into(), json!({"base": base, "got": r.to_string(), "exp": exp})));
                                    }
                                }
                                Err(e) => bad.push(("extend_dir_with_path failed".into(), json!(format!("{} -> {:?}", base, e)))),
                            },
                            Err(_) => {}
                        }
                    }
                    _ => {
                        // single-bit flips of every field of genuine exchanges
                        use rand::{Rng, SeedableRng};
                        let mut rng = rand::rngs::StdRng::seed_from_u64(seed.wrapping_mul(7919).wrapping_add(v["i"].as_u64().unwrap_or(0)));
                        let kid: u64 = [1u64, 2, 3, (1u64 << 63) + 5, u64::MAX - 2][rng.gen_range(0..5)];
                        let handler = StandardCupv2Handler::new(&public_keys(kid, &[if kid == 3 { 1 } else { kid + 1 }]));
                        let req: Vec<u8> = (0..rng.gen_range(0..40)).map(|_| rng.gen()).collect();
                        let rb: Vec<u8> = (0..rng.gen_range(0..40)).map(|_| rng.gen()).collect();
                        let mut n = [0u8; 32];
                        rng.fill(&mut n);
                        let c2k = format!("{}:{}", kid, hex::encode(n));
                        let (etag, sig) = signer::etag(&signer::key(kid as u8), &req, &rb, &c2k);
                        let hash = signer::sha(&req);
                        let check = |what: &str, req: &[u8], rb: &[u8], n: [u8; 32], kid: u64, etag: &[u8], exp: bool, bad: &mut Vec<(String, Value)>| {
                            let resp = match response(Some(etag), rb.to_vec()) {
                                Some(r) => r,
                                None => return,
                            };
                            let meta = RequestMetadata { request_body: req.to_vec(), public_key_id: kid, nonce: Nonce::from(n) };
                            let got = handler.verify_response(&meta, &resp, kid);
                            if got.is_ok() != exp {
                                bad.push((format!("single-bit flip of the {}: verdict {:?}, expected accept={}", what, got.map(|_| ()), exp), json!(String::from_utf8_lossy(etag))));
                            }
                        };
                        check("nothing (genuine)", &req, &rb, n, kid, etag.as_bytes(), true, &mut bad);
                        for bit in 0..rb.len() * 8 {
                            let mut m = rb.clone();
                            m[bit / 8] ^= 1 << (bit % 8);
                            check("response body", &req, &m, n, kid, etag.as_bytes(), false, &mut bad);
                        }
                        for bit in 0..req.len() * 8 {
                            let mut m = req.clone();
                            m[bit / 8] ^= 1 << (bit % 8);
                            check("retained request body", &m, &rb, n, kid, etag.as_bytes(), false, &mut bad);
                        }
                        for bit in 0..256 {
                            let mut m = n;
                            m[bit / 8] ^= 1 << (bit % 8);
                            check("nonce", &req, &rb, m, kid, etag.as_bytes(), false, &mut bad);
                        }
                        for bit in 0..64 {
                            check("key id", &req, &rb, n, kid ^ (1u64 << bit), etag.as_bytes(), false, &mut bad);
                        }
                        for bit in 0..sig.len() * 8 {
                            let mut m = sig.clone();
                            m[bit / 8] ^= 1 << (bit % 8);
                            let e = format!("{}:{}", hex::encode(&m), hex::encode(&hash));
                            check("DER signature", &req, &rb, n, kid, e.as_bytes(), false, &mut bad);
                        }
                        for bit in 0..256 {
                            let mut m = hash.clone();
                            m[bit / 8] ^= 1 << (bit % 8);
                            let e = format!("{}:{}", hex::encode(&sig), hex::encode(&m));
                            check("request hash", &req, &rb, n, kid, e.as_bytes(), false, &mut bad);
                        }
                        for wrap in ["plain", "quoted", "weak"] {
                            let text = match wrap {
                                "quoted" => format!("\"{}\"", etag),
                                "weak" => format!("W/\"{}\"", etag),
                                _ => etag.clone(),
                            };
                            let t = text.as_bytes();
                            for bit in 0..t.len() * 8 {
                                let mut m = t.to_vec();
                                m[bit / 8] ^= 1 << (bit % 8);
                                // the expected verdict comes from decoding the flipped text independently:
                                // a flipped hex-case bit decodes to the same bytes and must still be accepted
                                let exp = decode_etag(&m).map(|(s, h)| s == sig && h == hash).unwrap_or(false);
                                check("ETag text", &req, &rb, n, kid, &m, exp, &mut bad);
                            }
                        }
                    }
                }
                bad
            });
            match r {
                Ok(bads) => {
                    for (w, g) in bads {
                        out.bad(&w, &v, g);
                    }
                }
                Err(p) => out.bad("panic in the verifier / decorator", &v, json!(p)),
            }
        }
        out.finish();
    }
}
pub use cup::run as cup;

// ------------------------------------------------------------------ C15
mod wire {
    use super::*;
    use omaha_client::common::{App, UserCounting};
    use omaha_client::configuration::{Config, Updater};
    use omaha_client::cup_ecdsa::StandardCupv2Handler;
    use omaha_client::protocol::request::{Event, EventErrorCode, EventResult, EventType, InstallSource, GUID, OS};
    use omaha_client::protocol::Cohort;
    use omaha_client::request_builder::{RequestBuilder, RequestParams};
    use omaha_client::version::Version;

    fn template(t: &str) -> App {
        match t {
            "t1" => App::builder().id("app-a").version([1, 2, 3, 4]).cohort(Cohort { id: Some("c1".into()), hint: None, name: None })
                .user_counting(UserCounting::ClientRegulatedByDate(Some(5))).build(),
            "t2" => {
                let mut a = App::builder().id("app-a").version([9, 9]).cohort(Cohort { id: None, hint: Some("h2".into()), name: Some("".into()) })
                    .fingerprint("fp2").build();
                for j in 0..7 {
                    a.extra_fields.insert(format!("k{}", j), format!("v{}", j));
                }
                a
            }
            "t4" => App::builder().id("APP-A").version([3, 0, 0, 0]).cohort(Cohort { id: None, hint: None, name: Some("up".into()) })
                .user_counting(UserCounting::ClientRegulatedByDate(Some(34))).build(),
            _ => App::builder().id("app-b").version([0, 0, 0, 1]).user_counting(UserCounting::ClientRegulatedByDate(Some(0))).build(),
        }
    }

    fn event(e: &str) -> Event {
        match e {
            "e1" => Event::success(EventType::UpdateDownloadStarted),
            _ => Event {
                event_type: EventType::UpdateComplete,
                event_result: EventResult::Error,
                errorcode: Some(EventErrorCode::Installation),
                previous_version: Some("1.2.3.4".into()),
                next_version: Some("2.0".into()),
                download_time_ms: Some(1500),
            },
        }
    }

    fn braced_guid(s: &str) -> bool {
        let b = s.as_bytes();
        b.len() == 38 && b[0] == b'{' && b[37] == b'}'
            && b[1..37].iter().enumerate().all(|(i, c)| if matches!(i, 8 | 13 | 18 | 23) { *c == b'-' } else { c.is_ascii_hexdigit() })
    }

    /// structural equality: object key order free, array order not; an empty expected [] also stands for {}
    fn same(exp: &Value, got: &Value) -> bool {
        match (exp, got) {
            (Value::Array(a), Value::Object(o)) if a.is_empty() && o.is_empty() => true,
            (Value::Object(a), Value::Object(b)) => a.len() == b.len() && a.iter().all(|(k, v)| b.get(k).map(|w| same(v, w)).unwrap_or(false)),
            (Value::Array(a), Value::Array(b)) => a.len() == b.len() && a.iter().zip(b).all(|(x, y)| same(x, y)),
            (Value::String(s), Value::String(t)) if s == "@GUID" => braced_guid(t),
            (Value::Number(a), Value::Number(b)) => a.as_i64() == b.as_i64() && a.as_i64().is_some(),
            (a, b) => a == b,
        }
    }

    pub fn run(vec_path: &str, out_path: &str) {
        let mut out = Out::new(out_path);
        let config = Config {
            updater: Updater { name: "wire-updater".into(), version: Version::from([7, 8, 9, 10]) },
            os: OS { platform: "plat".into(), version: "os1".into(), service_pack: "sp2".into(), arch: "arm64".into() },
            service_url: "http://wire.example/v1/update".into(),
            omaha_public_keys: None,
        };
        for v in vectors(vec_path) {
            out.n += 1;
            let r = guarded(|| -> Vec<(String, Value)> {
                let mut bad = vec![];
                let params = RequestParams {
                    source: if v["p"]["src"] == "ondemand" { InstallSource::OnDemand } else { InstallSource::ScheduledTask },
                    use_configured_proxies: true,
                    disable_updates: v["p"]["dis"].as_bool().unwrap(),
                    offer_update_if_same_version: v["p"]["same"].as_bool().unwrap(),
                };
                let mut b = RequestBuilder::new(&config, &params);
                for o in v["ops"].as_array().cloned().unwrap_or_default() {
                    let t = o["t"].as_str().unwrap_or("");
                    b = match o["op"].as_str().unwrap_or("") {
                        "uc" => b.add_update_check(&template(t)),
                        "ping" => b.add_ping(&template(t)),
                        "ev" => b.add_event(&template(t), event(o["e"].as_str().unwrap())),
                        "sid" => b.session_id(GUID::new()),
                        _ => b.request_id(GUID::new()),
                    };
                }
                let none: Option<&StandardCupv2Handler> = None;
                let mut bodies = vec![];
                for round in 0..2 {
                    let (req, meta) = match b.build(none) {
                        Ok(x) => x,
                        Err(e) => {
                            bad.push(("build failed".into(), json!(e.to_string())));
                            return bad;
                        }
                    };
                    let (parts, body) = req.into_parts();
                    let bytes = futures::executor::block_on(hyper::body::to_bytes(body)).map(|b| b.to_vec()).unwrap_or_default();
                    if round == 0 {
                        let exp = &v["exp"];
                        if parts.method.as_str() != exp["method"] {
                            bad.push(("method".into(), json!(parts.method.as_str())));
                        }
                        if parts.uri.to_string() != config.service_url {
                            bad.push(("request does not target the service URL".into(), json!(parts.uri.to_string())));
                        }
                        if meta.is_some() {
                            bad.push(("metadata without a CUP handler".into(), json!(true)));
                        }
                        let mut hs = serde_json::Map::new();
                        for (k, val) in parts.headers.iter() {
                            if hs.contains_key(k.as_str()) {
                                bad.push(("duplicate header".into(), json!(k.as_str())));
                            }
                            hs.insert(k.as_str().to_string(), json!(val.to_str().unwrap_or("@nonascii")));
                        }
                        if !same(&exp["headers"], &Value::Object(hs.clone())) {
                            bad.push(("headers differ from the wire shape".into(), Value::Object(hs)));
                        }
                        match serde_json::from_slice::<Value>(&bytes) {
                            Ok(got) => {
                                if !same(&exp["body"], &got) {
                                    bad.push(("body differs from the Omaha v3 wire shape".into(), got));
                                }
                            }
                            Err(e) => bad.push(("body is not JSON".into(), json!(e.to_string()))),
                        }
                    }
                    bodies.push(bytes);
                }
                if bodies[0] != bodies[1] {
                    bad.push(("building twice gives different requests: build consumes or alters the builder".into(), json!(String::from_utf8_lossy(&bodies[1]))));
                }
                bad
            });
            match r {
                Ok(bads) => {
                    for (w, g) in bads {
                        out.bad(&w, &v, g);
                    }
                }
                Err(p) => out.bad("panic", &v, json!(p)),
            }
        }
        out.finish();
    }
}
pub use wire::run as wire;

// ------------------------------------------------------------------ C16
mod resp {
    use super::*;
    use omaha_client::protocol::response::{parse_json_response, App, OmahaStatus, Response, UpdateCheck};
    use serde_json::Map;

    fn subst(line: &str) -> String {
        // "@NULL" -> null ; "@U64:123" -> 123 ; "@NUM:-1.5" -> -1.5   (TLC can print neither)
        let mut s = line.replace("\"@NULL\"", "null");
        for tag in ["@U64:", "@NUM:"] {
            loop {
                let pat = format!("\"{}", tag);
                match s.find(&pat) {
                    Some(i) => {
                        let rest = &s[i + pat.len()..];
                        let j = rest.find('"').unwrap();
                        let num = rest[..j].to_string();
                        s = format!("{}{}{}", &s[..i], num, &rest[j + 1..]);
                    }
                    None => break,
                }
            }
        }
        s
    }

    fn status_s(s: &OmahaStatus) -> Value {
        match s {
            OmahaStatus::Ok => json!("ok"),
            OmahaStatus::Restricted => json!("restricted"),
            OmahaStatus::NoUpdate => json!("noupdate"),
            OmahaStatus::Error(e) => json!(e),
        }
    }

    fn put(m: &mut Map<String, Value>, k: &str, v: Option<Value>) {
        if let Some(v) = v {
            m.insert(k.to_string(), v);
        }
    }

    fn uc_j(u: &UpdateCheck) -> Value {
        let mut m = Map::new();
        m.insert("status".into(), status_s(&u.status));
        put(&mut m, "info", u.info.clone().map(Value::from));
        put(&mut m, "urls", u.urls.as_ref().map(|us| json!({"url": us.url.iter().map(|x| json!({"codebase": x.codebase})).collect::<Vec<_>>()})));
        put(&mut m, "manifest", u.manifest.as_ref().map(|mf| {
            json!({"version": mf.version,
                   "actions": {"action": mf.actions.action.iter().map(|a| {
                       let mut am = Map::new();
                       put(&mut am, "event", a.event.clone().map(Value::from));
                       put(&mut am, "run", a.run.clone().map(Value::from));
                       for (k, v) in &a.extra_attributes { am.insert(k.clone(), v.clone()); }
                       Value::Object(am)
                   }).collect::<Vec<_>>()},
                   "packages": {"package": mf.packages.package.iter().map(|p| {
                       let mut pm = Map::new();
                       pm.insert("name".into(), json!(p.name));
                       pm.insert("required".into(), json!(p.required));
                       put(&mut pm, "size", p.size.map(Value::from));
                       put(&mut pm, "hash", p.hash.clone().map(Value::from));
                       put(&mut pm, "hash_sha256", p.hash_sha256.clone().map(Value::from));
                       pm.insert("fp".into(), json!(p.fingerprint));
                       for (k, v) in &p.extra_attributes { pm.insert(k.clone(), v.clone()); }
                       Value::Object(pm)
                   }).collect::<Vec<_>>()}})
        }));
        for (k, v) in &u.extra_attributes {
            m.insert(k.clone(), v.clone());
        }
        Value::Object(m)
    }

    fn app_j(a: &App) -> Value {
        let mut m = Map::new();
        m.insert("appid".into(), json!(a.id));
        m.insert("status".into(), status_s(&a.status));
        put(&mut m, "cohort", a.cohort.id.clone().map(Value::from));
        put(&mut m, "cohorthint", a.cohort.hint.clone().map(Value::from));
        put(&mut m, "cohortname", a.cohort.name.clone().map(Value::from));
        put(&mut m, "ping", a.ping.as_ref().map(|p| {
            // the field is private: read the status from the Debug form
            let d = format!("{:?}", p);
            let st = if d.contains("status: Ok") { "ok".to_string() } else if d.contains("Restricted") { "restricted".into() }
                     else if d.contains("NoUpdate") { "noupdate".into() } else { d };
            json!({"status": st})
        }));
        put(&mut m, "updatecheck", a.update_check.as_ref().map(uc_j));
        put(&mut m, "event", a.events.as_ref().map(|es| Value::Array(es.iter().map(|e| json!({"status": status_s(&e.status)})).collect())));
        for (k, v) in &a.extra_attributes {
            m.insert(k.clone(), v.clone());
        }
        Value::Object(m)
    }

    fn reencode(r: &Response) -> Value {
        let mut m = Map::new();
        m.insert("protocol".into(), json!(r.protocol_version));
        put(&mut m, "server", r.server.clone().map(Value::from));
        put(&mut m, "daystart", r.daystart.as_ref().map(|d| {
            let mut dm = Map::new();
            put(&mut dm, "elapsed_days", d.elapsed_days.map(Value::from));
            put(&mut dm, "elapsed_seconds", d.elapsed_seconds.map(Value::from));
            Value::Object(dm)
        }));
        m.insert("app".into(), Value::Array(r.apps.iter().map(app_j).collect()));
        Value::Object(m)
    }

    /// the document with null = absent and the keys the grammar ignores removed
    fn strip(v: &Value, ignored: &[String]) -> Value {
        match v {
            Value::Object(m) => Value::Object(
                m.iter().filter(|(k, x)| !x.is_null() && !ignored.contains(k)).map(|(k, x)| (k.clone(), strip(x, ignored))).collect(),
            ),
            Value::Array(a) => Value::Array(a.iter().map(|x| strip(x, ignored)).collect()),
            x => x.clone(),
        }
    }

    /// TLA+ has one empty function, printed as []: where the grammar has an object (or an element of a list of
    /// objects) an empty [] is the empty object {}.  (Wrong-type edits never use an empty array for an object.)
    fn fix_empty(v: &mut Value, key: &str, in_list_of_objects: bool) {
        const OBJ_KEYS: [&str; 8] = ["response", "daystart", "ping", "updatecheck", "urls", "manifest", "actions", "packages"];
        const LIST_KEYS: [&str; 5] = ["app", "event", "url", "action", "package"];
        if let Value::Array(a) = v {
            if a.is_empty() && (OBJ_KEYS.contains(&key) || in_list_of_objects) {
                *v = json!({});
                return;
            }
        }
        match v {
            Value::Object(m) => {
                for (k, x) in m.iter_mut() {
                    fix_empty(x, k, false);
                }
            }
            Value::Array(a) => {
                let list = LIST_KEYS.contains(&key);
                for x in a.iter_mut() {
                    fix_empty(x, "", list);
                }
            }
            _ => {}
        }
    }

    fn same(a: &Value, b: &Value) -> bool {
        match (a, b) {
            (Value::Array(x), Value::Object(o)) | (Value::Object(o), Value::Array(x)) if x.is_empty() && o.is_empty() => true,
            (Value::Object(x), Value::Object(y)) => x.len() == y.len() && x.iter().all(|(k, v)| y.get(k).map(|w| same(v, w)).unwrap_or(false)),
            (Value::Array(x), Value::Array(y)) => x.len() == y.len() && x.iter().zip(y).all(|(p, q)| same(p, q)),
            (Value::Number(x), Value::Number(y)) => x.to_string() == y.to_string(),
            (x, y) => x == y,
        }
    }

    pub fn run(vec_path: &str, out_path: &str, seed: u64) {
        let mut out = Out::new(out_path);
        let f = std::fs::File::open(vec_path).expect("open vectors");
        let mut docs: Vec<String> = vec![];
        for line in std::io::BufReader::new(f).lines() {
            let line = line.expect("read");
            if line.trim().is_empty() {
                continue;
            }
            out.n += 1;
            let mut v: Value = serde_json::from_str(&subst(&line)).expect("vector");
            if v["base"] == "pfx" {
                // a variant of the anti-XSSI prefix in front of a valid document, or alone
                let mut bytes: Vec<u8> = v["bytes"].as_array().unwrap().iter().map(|b| b.as_u64().unwrap() as u8).collect();
                if !v["alone"].as_bool().unwrap() {
                    bytes.extend_from_slice(br#"{"response":{"protocol":"3.0","app":[{"appid":"a","status":"ok"}]}}"#);
                }
                match guarded(|| parse_json_response(&bytes)) {
                    Err(p) => out.bad("panic in the parser", &v, json!(p)),
                    Ok(r) => {
                        if r.is_ok() != v["valid"].as_bool().unwrap() {
                            out.bad("a variant of the anti-XSSI prefix is handled wrongly (accepted iff it is exactly the prefix or absent)", &v,
                                    json!(String::from_utf8_lossy(&bytes)));
                        }
                    }
                }
                continue;
            }
            fix_empty(&mut v["doc"], "", false);
            let text = serde_json::to_string(&v["doc"]).unwrap();
            if docs.len() < 400 {
                docs.push(text.clone());
            }
            let r = guarded(|| -> Vec<(String, Value)> {
                let mut bad = vec![];
                let valid = v["valid"].as_bool().unwrap();
                let plain = parse_json_response(text.as_bytes());
                let mut pre = b")]}'\n".to_vec();
                pre.extend_from_slice(text.as_bytes());
                let prefixed = parse_json_response(&pre);
                match (&plain, &prefixed) {
                    (Ok(a), Ok(b)) if a == b => {}
                    (Err(_), Err(_)) => {}
                    _ => bad.push(("the anti-XSSI prefix changes the result".into(), json!(text))),
                }
                match (&plain, valid) {
                    (Ok(_), false) => bad.push(("accepted a document with a missing / null / wrongly typed field".into(), json!(text))),
                    (Err(e), true) => bad.push(("rejected a well-formed document".into(), json!(format!("{} :: {}", e, text)))),
                    (Err(_), false) => {}
                    (Ok(resp), true) => {
                        let ignored: Vec<String> = v["ignored"].as_array().map(|a| a.iter().map(|x| x.as_str().unwrap().to_string()).collect()).unwrap_or_default();
                        let exp = strip(&v["doc"]["response"], &ignored);
                        let got = reencode(resp);
                        if !same(&exp, &got) {
                            bad.push(("decoded value differs from what the document says".into(), json!({"exp": exp, "got": got})));
                        }
                        if v["urlsKnown"] == true {
                            let got: Vec<String> = resp.apps[0].update_check.as_ref().map(|u| u.get_all_full_urls().collect()).unwrap_or_default();
                            let exp: Vec<String> = v["urls"].as_array().map(|a| a.iter().map(|x| x.as_str().unwrap().to_string()).collect()).unwrap_or_default();
                            if got != exp {
                                bad.push(("full URLs are not every codebase joined with every package name, in order".into(), json!({"exp": exp, "got": got})));
                            }
                        }
                    }
                }
                bad
            });
            match r {
                Ok(bads) => {
                    for (w, g) in bads {
                        out.bad(&w, &v, g);
                    }
                }
                Err(p) => out.bad("panic in the parser", &v, json!(p)),
            }
        }
        // totality sweep in a child process: a stack overflow aborts instead of unwinding
        let sweep_in = format!("{}.sweep", out_path);
        std::fs::write(&sweep_in, docs.join("\n")).expect("write sweep input");
        let st = std::process::Command::new(std::env::current_exe().expect("exe"))
            .args(["resp-sweep", &sweep_in, &seed.to_string()])
            .output();
        out.n += 1;
        match st {
            Ok(o) if o.status.success() => {
                let s = String::from_utf8_lossy(&o.stdout);
                for l in s.lines() {
                    if let Some(rest) = l.strip_prefix("SWEEP-PANIC ") {
                        out.bad("panic in the parser on sweep input", &json!({"sweep": rest}), json!(rest));
                    } else if let Some(rest) = l.strip_prefix("SWEEP-N ") {
                        out.n += rest.trim().parse::<usize>().unwrap_or(0);
                    }
                }
            }
            Ok(o) => out.bad("the parser aborted the process (stack overflow?) on sweep input", &json!({"sweep": "child"}),
                             json!(format!("{:?} {}", o.status, String::from_utf8_lossy(&o.stderr).chars().take(400).collect::<String>()))),
            Err(e) => out.bad("could not run the sweep child", &json!({}), json!(e.to_string())),
        }
        out.finish();
    }

    pub fn sweep(path: &str, seed: u64) {
        use rand::{Rng, SeedableRng};
        let mut rng = rand::rngs::StdRng::seed_from_u64(seed);
        let docs: Vec<Vec<u8>> = std::fs::read_to_string(path).unwrap_or_default().lines().map(|l| l.as_bytes().to_vec()).collect();
        let mut n = 0usize;
        let mut try_one = |bytes: &[u8], what: &str| {
            n += 1;
            if let Err(p) = guarded(|| {
                let _ = parse_json_response(bytes);
            }) {
                println!("SWEEP-PANIC {} {}", what, p);
            }
        };
        let mut all: Vec<Vec<u8>> = docs.clone();
        for d in docs.iter().take(20) {
            let mut p = b")]}'\n".to_vec();
            p.extend_from_slice(d);
            all.push(p);
        }
        let nplain = docs.len();
        for (i, d) in all.iter().enumerate() {
            let full = i < 40 || i >= nplain;
            // every truncation point
            for k in 0..d.len() {
                if full || k % 7 == 0 {
                    try_one(&d[..k], "truncation");
                }
            }
            // every single-bit flip
            for bit in 0..d.len() * 8 {
                if full || rng.gen_range(0..40) == 0 {
                    let mut m = d.clone();
                    m[bit / 8] ^= 1 << (bit % 8);
                    try_one(&m, "bitflip");
                }
            }
        }
        // deeply nested values (inside an extension attribute and at top level)
        for depth in [200usize, 100_000, 3_000_000] {
            let mut s = String::from("{\"response\":{\"protocol\":\"3.0\",\"app\":[{\"appid\":\"a\",\"status\":\"ok\",\"x\":");
            s.push_str(&"[".repeat(depth));
            s.push_str(&"]".repeat(depth));
            s.push_str("}]}}");
            try_one(s.as_bytes(), "nesting");
            let t = "{\"a\":".repeat(depth) + "1" + &"}".repeat(depth);
            try_one(t.as_bytes(), "nesting");
            let u = "[".repeat(depth);
            try_one(u.as_bytes(), "nesting");
        }
        for _ in 0..20000 {
            let len = rng.gen_range(0..64);
            let b: Vec<u8> = (0..len).map(|_| rng.gen()).collect();
            try_one(&b, "random");
        }
        println!("SWEEP-N {}", n);
    }
}
pub use resp::run as resp;
pub use resp::sweep as resp_sweep;

// ------------------------------------------------------------------ C17
mod mock {
    use super::*;
    use crate::doubles::public_keys;
    use crate::signer;
    use futures::future::BoxFuture;
    use futures::prelude::*;
    use mock_omaha_server::{OmahaResponse, OmahaServer, PrivateKeyAndId, PrivateKeys, ResponseAndMetadata};
    use omaha_client::app_set::VecAppSet;
    use omaha_client::common::App;
    use omaha_client::configuration::{Config, Updater};
    use omaha_client::cup_ecdsa::{Cupv2RequestHandler, RequestMetadata, StandardCupv2Handler};
    use omaha_client::http_request::{Error as HttpError, HttpRequest};
    use omaha_client::metrics::StubMetricsReporter;
    use omaha_client::policy::StubPolicyEngine;
    use omaha_client::protocol::request::{Event, EventType, OS};
    use omaha_client::protocol::response::{parse_json_response, OmahaStatus};
    use omaha_client::request_builder::{RequestBuilder, RequestParams};
    use omaha_client::state_machine::{State, StateMachineBuilder, StateMachineEvent, UpdateCheckError};
    use omaha_client::storage::MemStorage;
    use omaha_client::time::{timers::StubTimer, StandardTimeSource};
    use omaha_client::version::Version;
    use std::rc::Rc;
    use std::sync::Arc;
    use tokio::sync::Mutex;

    fn kind(k: &str) -> OmahaResponse {
        match k {
            "Update" => OmahaResponse::Update,
            "UrgentUpdate" => OmahaResponse::UrgentUpdate,
            "InvalidResponse" => OmahaResponse::InvalidResponse,
            "InvalidURL" => OmahaResponse::InvalidURL,
            _ => OmahaResponse::NoUpdate,
        }
    }

    fn server_keys(k: &Value) -> PrivateKeys {
        PrivateKeys {
            latest: PrivateKeyAndId { id: k["latest"].as_u64().unwrap(), key: signer::key(k["latest"].as_u64().unwrap() as u8) },
            historical: k["hist"].as_array().unwrap().iter().map(|x| PrivateKeyAndId { id: x.as_u64().unwrap(), key: signer::key(x.as_u64().unwrap() as u8) }).collect(),
        }
    }

    fn map_of(m: &Value) -> std::collections::HashMap<String, ResponseAndMetadata> {
        m.as_array().unwrap().iter().map(|e| {
            (e["id"].as_str().unwrap().to_string(),
             ResponseAndMetadata { response: kind(e["kind"].as_str().unwrap()), version: None, ..Default::default() })
        }).collect()
    }

    /// The reconfiguration document; `form` is how "no version assertion" / "this version" is spelt:
    /// "null" (explicit nulls), "omitted" (optional keys absent), "match" (asserts the client's own version).
    fn map_json(m: &Value, form: &str, appver: &str) -> Value {
        let mut o = serde_json::Map::new();
        for e in m.as_array().unwrap() {
            let mut ent = json!({"response": e["kind"], "check_assertion": "UpdatesEnabled",
                                 "codebase": "fuchsia-pkg://integration.test.fuchsia.com/", "package_name": "update?hash=abc"});
            match form {
                "omitted" => {}
                "match" => {
                    ent["version"] = json!(appver);
                    ent["cohort_assertion"] = Value::Null;
                }
                _ => {
                    ent["version"] = Value::Null;
                    ent["cohort_assertion"] = Value::Null;
                }
            }
            o.insert(e["id"].as_str().unwrap().to_string(), ent);
        }
        Value::Object(o)
    }

    fn config(url: &str) -> Config {
        Config {
            updater: Updater { name: "mock-client".into(), version: Version::from([1, 0]) },
            os: OS { platform: "p".into(), version: "v".into(), service_pack: "s".into(), arch: "a".into() },
            service_url: format!("http://mock.example{}", url),
            omaha_public_keys: None,
        }
    }

    /// origin-form request (what a real HTTP client puts on the wire) handed to the server in-process
    async fn serve(server: &Mutex<OmahaServer>, req: http::Request<hyper::Body>) -> Result<http::Response<Vec<u8>>, String> {
        let (mut parts, body) = req.into_parts();
        let pq = parts.uri.path_and_query().map(|p| p.as_str().to_string()).unwrap_or_else(|| "/".into());
        parts.uri = pq.parse().map_err(|e| format!("origin-form uri: {:?}", e))?;
        let req = http::Request::from_parts(parts, body);
        let resp = mock_omaha_server::handle_request(req, server).await.map_err(|e| e.to_string())?;
        let (p, b) = resp.into_parts();
        let bytes = hyper::body::to_bytes(b).await.map_err(|e| e.to_string())?.to_vec();
        Ok(http::Response::from_parts(p, bytes))
    }

    struct MockHttp(Arc<Mutex<OmahaServer>>);
    impl HttpRequest for MockHttp {
        fn request(&mut self, req: hyper::Request<hyper::Body>) -> BoxFuture<'_, Result<hyper::Response<Vec<u8>>, HttpError>> {
            let s = self.0.clone();
            async move {
                match serve(&s, req).await {
                    Ok(r) => Ok(r),
                    Err(_) => Err(omaha_client::http_request::mock_errors::make_transport_error()),
                }
            }
            .boxed()
        }
    }

    /// a contract-conforming installer: exactly one result per app that was offered an update
    struct NPlan(usize);
    impl omaha_client::installer::Plan for NPlan {
        fn id(&self) -> String {
            "mock-plan".into()
        }
    }
    #[derive(Debug)]
    struct NErr;
    impl std::fmt::Display for NErr {
        fn fmt(&self, f: &mut std::fmt::Formatter<'_>) -> std::fmt::Result {
            write!(f, "nerr")
        }
    }
    impl std::error::Error for NErr {}
    struct NInstaller;
    impl omaha_client::installer::Installer for NInstaller {
        type InstallPlan = NPlan;
        type InstallResult = ();
        type Error = NErr;
        fn perform_install<'a>(
            &'a mut self,
            plan: &'a NPlan,
            _o: Option<&'a dyn omaha_client::installer::ProgressObserver>,
        ) -> futures::future::LocalBoxFuture<'a, ((), Vec<omaha_client::installer::AppInstallResult<NErr>>)> {
            future::ready(((), (0..plan.0).map(|_| omaha_client::installer::AppInstallResult::Installed).collect())).boxed_local()
        }
        fn perform_reboot(&mut self) -> futures::future::LocalBoxFuture<'_, Result<(), anyhow::Error>> {
            future::ready(Ok(())).boxed_local()
        }
        fn try_create_install_plan<'a>(
            &'a self,
            _p: &'a RequestParams,
            _m: Option<&'a RequestMetadata>,
            response: &'a omaha_client::protocol::response::Response,
            _b: Vec<u8>,
            _s: Option<Vec<u8>>,
        ) -> futures::future::LocalBoxFuture<'a, Result<NPlan, NErr>> {
            let n = response.apps.iter().filter(|a| matches!(&a.update_check, Some(u) if u.status == OmahaStatus::Ok)).count();
            future::ready(Ok(NPlan(n))).boxed_local()
        }
    }

    fn apps_in(order: &Value, appver: &str) -> Vec<App> {
        let ver: Version = appver.parse().unwrap_or_else(|_| Version::from([0, 1, 2, 3]));
        order.as_array().unwrap().iter().map(|id| App::builder().id(id.as_str().unwrap()).version(ver.clone()).build()).collect()
    }

    pub fn run(vec_path: &str, out_path: &str) {
        let mut out = Out::new(out_path);
        for v in vectors(vec_path) {
            out.n += 1;
            let r = guarded(|| -> Vec<(String, Value)> {
                let mut bad = vec![];
                let url = v["url"].as_str().unwrap();
                let ck = v["ck"].as_u64().unwrap();
                let appver = v["appver"].as_str().unwrap_or("0.1.2.3");
                let cfg = config(url);
                let handler = if ck == 0 { None } else { Some(StandardCupv2Handler::new(&public_keys(ck, &[]))) };
                let server = Arc::new(Mutex::new(OmahaServer {
                    responses_by_appid: map_of(&v["m0"]),
                    private_keys: server_keys(&v["keys"]),
                    etag_override: None,
                    require_cup: false,
                }));
                let mut exchanges: Vec<(RequestMetadata, http::Response<Vec<u8>>)> = vec![];
                for st in v["steps"].as_array().unwrap() {
                    match st["op"].as_str().unwrap() {
                        "set" => {
                            let req = http::Request::post("/set_responses_by_appid").body(hyper::Body::from(map_json(&st["map"], st["form"].as_str().unwrap_or("null"), appver).to_string())).unwrap();
                            let r = futures::executor::block_on(mock_omaha_server::handle_request(req, &server));
                            if r.map(|x| x.status().as_u16()).unwrap_or(0) != 200 {
                                bad.push(("reconfiguration request failed".into(), json!(st)));
                            }
                        }
                        "req" => {
                            let params = RequestParams::default();
                            let apps = apps_in(&st["order"], appver);
                            let mut b = RequestBuilder::new(&cfg, &params);
                            for a in &apps {
                                b = if st["rk"] == "uc" { b.add_update_check(a).add_ping(a) } else { b.add_event(a, Event::success(EventType::UpdateComplete)) };
                            }
                            let (req, meta) = match b.build(handler.as_ref()) {
                                Ok(x) => x,
                                Err(e) => {
                                    bad.push(("client could not build the request".into(), json!(e.to_string())));
                                    continue;
                                }
                            };
                            let resp = match futures::executor::block_on(serve(&server, req)) {
                                Ok(r) => r,
                                Err(e) => {
                                    bad.push(("server failed".into(), json!(e)));
                                    continue;
                                }
                            };
                            let exp = &st["exp"];
                            if resp.status().as_u16() != 200 {
                                bad.push(("status".into(), json!(resp.status().as_u16())));
                            }
                            match (parse_json_response(resp.body()), exp["parses"].as_bool().unwrap()) {
                                (Ok(doc), true) => {
                                    let ids: Vec<String> = doc.apps.iter().map(|a| a.id.clone()).collect();
                                    let want: Vec<String> = exp["apps"].as_array().unwrap().iter().map(|a| a["id"].as_str().unwrap().to_string()).collect();
                                    if ids != want {
                                        bad.push(("the answer does not list exactly the requested apps in request order".into(), json!(ids)));
                                    } else {
                                        for (a, e) in doc.apps.iter().zip(exp["apps"].as_array().unwrap()) {
                                            let k = e["kind"].as_str().unwrap();
                                            let okk = match (k, &a.update_check) {
                                                ("none", None) => true,
                                                ("NoUpdate", Some(u)) => u.status == OmahaStatus::NoUpdate && u.manifest.is_none(),
                                                ("Update", Some(u)) => u.status == OmahaStatus::Ok && u.manifest.is_some() && !u.extra_attributes.contains_key("_urgent_update"),
                                                ("UrgentUpdate", Some(u)) => u.status == OmahaStatus::Ok && u.manifest.is_some() && u.extra_attributes.get("_urgent_update") == Some(&json!(true)),
                                                ("InvalidURL", Some(u)) => u.status == OmahaStatus::Ok && u.get_all_url_codebases().next() == Some("http://integration.test.fuchsia.com/"),
                                                _ => false,
                                            };
                                            if !okk {
                                                bad.push(("an app is not answered with the configured decision".into(), json!({"app": a.id, "kind": k})));
                                            }
                                        }
                                    }
                                }
                                (Err(_), false) => {}
                                (Ok(_), false) => bad.push(("the client parser accepts a response configured to be invalid".into(), json!(st))),
                                (Err(e), true) => bad.push(("the client parser rejects the server's document".into(), json!(e.to_string()))),
                            }
                            let has_etag = resp.headers().contains_key("etag");
                            if has_etag != exp["etag"].as_bool().unwrap() {
                                bad.push(("ETag presence differs (expected iff the request carried a cup2key for a key the server holds)".into(), json!(has_etag)));
                            }
                            if let (Some(h), Some(m)) = (handler.as_ref(), meta) {
                                if has_etag {
                                    if let Err(e) = h.verify_response(&m, &resp, m.public_key_id) {
                                        bad.push(("the client verifier rejects the server's ETag for this exchange".into(), json!(format!("{:?}", e))));
                                    }
                                    for (om, or) in &exchanges {
                                        if h.verify_response(om, &resp, om.public_key_id).is_ok() || h.verify_response(&m, or, m.public_key_id).is_ok() {
                                            bad.push(("an ETag verifies for another exchange of the history".into(), json!(st)));
                                        }
                                    }
                                    exchanges.push((m, resp));
                                }
                            }
                        }
                        _ => {}
                    }
                }
                // drive the real state machine against the in-process server (one update check)
                // (under the response map in force at the end of the history)
                {
                    let last = &v["final"];
                    let apps = apps_in(&last["order"], appver);
                    let cup = if ck == 0 { None } else { Some(StandardCupv2Handler::new(&public_keys(ck, &[]))) };
                    let events: Vec<StateMachineEvent> = futures::executor::block_on(async {
                        StateMachineBuilder::new(
                            StubPolicyEngine::<NPlan, StandardTimeSource>::new(StandardTimeSource),
                            MockHttp(server.clone()),
                            NInstaller,
                            StubTimer,
                            StubMetricsReporter,
                            Rc::new(futures::lock::Mutex::new(MemStorage::new())),
                            cfg.clone(),
                            Rc::new(futures::lock::Mutex::new(VecAppSet::new(apps))),
                            cup,
                        )
                        .oneshot_check()
                        .await
                        .collect()
                        .await
                    });
                    let mut states = vec![];
                    let mut result = "none".to_string();
                    for e in &events {
                        match e {
                            StateMachineEvent::StateChange(s) => states.push(*s),
                            StateMachineEvent::UpdateCheckResult(Ok(r)) => {
                                result = if r.app_responses.iter().any(|a| a.result == omaha_client::state_machine::update_check::Action::Updated) { "update".into() } else { "noupdate".into() };
                            }
                            StateMachineEvent::UpdateCheckResult(Err(UpdateCheckError::ResponseParser(_))) => result = "parse-error".into(),
                            StateMachineEvent::UpdateCheckResult(Err(UpdateCheckError::OmahaRequest(omaha_client::state_machine::OmahaRequestError::CupValidation(_)))) => result = "cup-error".into(),
                            StateMachineEvent::UpdateCheckResult(Err(e)) => result = format!("{:?}", e),
                            _ => {}
                        }
                    }
                    let want = last["outcome"].as_str().unwrap();
                    let states_ok = match want {
                        "update" => states.contains(&State::InstallingUpdate),
                        "noupdate" => states.contains(&State::NoUpdateAvailable),
                        _ => states.contains(&State::ErrorCheckingForUpdate),
                    };
                    if result != want || !states_ok {
                        bad.push(("the state machine run against the mock does not reach the configured outcome".into(), json!({"want": want, "got": result})));
                    }
                }
                bad
            });
            match r {
                Ok(bads) => {
                    for (w, g) in bads {
                        out.bad(&w, &v, g);
                    }
                }
                Err(p) => out.bad("panic (the mock server or the client aborted)", &v, json!(p)),
            }
        }
        out.finish();
    }
}
pub use mock::run as mock;
