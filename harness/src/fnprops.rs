//! Function properties: vectors printed by TLC from the TLA+ reference models are run through the real
//! functions; any disagreement is printed as one JSON line {"bad": ..., "vec": ...}.

use serde_json::{json, Value};
use std::io::{BufRead, Write};
use std::panic::{catch_unwind, AssertUnwindSafe};
use std::str::FromStr;

fn vectors(path: &str) -> Vec<Value> {
    let f = std::fs::File::open(path).expect("open vectors");
    std::io::BufReader::new(f)
        .lines()
        .map(|l| l.expect("read"))
        .filter(|l| !l.trim().is_empty())
        .map(|l| serde_json::from_str(&l).expect("vector json"))
        .collect()
}

pub struct Out {
    pub n: usize,
    pub bad: usize,
    w: Box<dyn Write>,
}

impl Out {
    pub fn new(path: &str) -> Out {
        Out {
            n: 0,
            bad: 0,
            w: Box::new(std::io::BufWriter::new(std::fs::File::create(path).expect("create out"))),
        }
    }
    pub fn bad(&mut self, what: &str, vec: &Value, got: Value) {
        self.bad += 1;
        writeln!(self.w, "{}", json!({"bad": what, "vec": vec, "got": got})).unwrap();
    }
    pub fn finish(mut self) {
        writeln!(self.w, "{}", json!({"summary": {"n": self.n, "bad": self.bad}})).unwrap();
        self.w.flush().unwrap();
    }
}

fn guarded<T>(f: impl FnOnce() -> T) -> Result<T, String> {
    catch_unwind(AssertUnwindSafe(f)).map_err(|p| {
        p.downcast_ref::<String>()
            .cloned()
            .or_else(|| p.downcast_ref::<&str>().map(|s| s.to_string()))
            .unwrap_or_else(|| "panic".into())
    })
}

// ------------------------------------------------------------------ C20
pub fn ver(vec_path: &str, out_path: &str) {
    use omaha_client::version::Version;
    let mut out = Out::new(out_path);
    for v in vectors(vec_path) {
        out.n += 1;
        if let Some(s) = v.get("s").and_then(|x| x.as_str()) {
            let verdict = v["v"].as_str().unwrap_or("");
            let r = guarded(|| Version::from_str(s));
            let r = match r {
                Err(p) => {
                    out.bad("panic in from_str", &v, json!(p));
                    continue;
                }
                Ok(r) => r,
            };
            let js = serde_json::to_string(&json!(s)).unwrap();
            let de = guarded(|| serde_json::from_str::<Version>(&js));
            match verdict {
                "ok" => {
                    let p = v["p"].as_str().unwrap_or("");
                    match &r {
                        Ok(ver) => {
                            let printed = ver.to_string();
                            if printed != p {
                                out.bad("print differs from the canonical form", &v, json!(printed));
                            }
                            if format!("{:?}", ver) != p {
                                out.bad("debug print differs", &v, json!(format!("{:?}", ver)));
                            }
                            match Version::from_str(&printed) {
                                Ok(back) if back == *ver => {}
                                _ => out.bad("parse(print(v)) != v", &v, json!(printed)),
                            }
                            match serde_json::to_string(ver) {
                                Ok(j) if j == format!("\"{}\"", p) => {}
                                other => out.bad("JSON serialisation is not the canonical string", &v, json!(format!("{:?}", other))),
                            }
                            // arrays zero-fill
                            let parts: Vec<u32> = p.split('.').map(|x| x.parse::<u32>().unwrap_or(0)).collect();
                            let np = v["np"].as_u64().unwrap_or(4) as usize;
                            let from_arr = match np {
                                1 => Version::from([parts[0]]),
                                2 => Version::from([parts[0], parts[1]]),
                                3 => Version::from([parts[0], parts[1], parts[2]]),
                                _ => Version::from([parts[0], parts[1], parts[2], parts[3]]),
                            };
                            if from_arr != *ver {
                                out.bad("conversion from array differs from parse", &v, json!(from_arr.to_string()));
                            }
                        }
                        Err(e) => out.bad("rejected a valid version string", &v, json!(e.to_string())),
                    }
                    match de {
                        Ok(Ok(d)) if r.as_ref().map(|x| *x == d).unwrap_or(false) => {}
                        other => out.bad("JSON deserialisation differs from parse", &v, json!(format!("{:?}", other.map(|x| x.map(|y| y.to_string()).map_err(|e| e.to_string()))))),
                    }
                }
                "err" => {
                    if let Ok(ver) = &r {
                        out.bad("accepted an invalid version string", &v, json!(ver.to_string()));
                    }
                    if let Ok(Ok(d)) = de {
                        out.bad("JSON deserialisation accepted an invalid version string", &v, json!(d.to_string()));
                    }
                }
                _ => {
                    if let Err(p) = de {
                        out.bad("panic in deserialisation", &v, json!(p));
                    }
                }
            }
        } else {
            let a = Version::from_str(v["a"].as_str().unwrap_or("")).expect("cmp a");
            let b = Version::from_str(v["b"].as_str().unwrap_or("")).expect("cmp b");
            let lt = v["lt"].as_bool().unwrap_or(false);
            let eq = v["eq"].as_bool().unwrap_or(false);
            if (a < b) != lt || (a == b) != eq || (a > b) != (!lt && !eq) || (a.cmp(&b) == std::cmp::Ordering::Less) != lt {
                out.bad("ordering differs from numeric component-wise order", &v, json!({"lt": a < b, "eq": a == b}));
            }
        }
    }
    out.finish();
}

// ------------------------------------------------------------------ C19
mod timeconv {
    use super::*;
    use omaha_client::storage::{MemStorage, Storage, StorageExt};
    use omaha_client::time::system_time_conversion::{
        checked_system_time_to_micros_from_epoch, micros_from_epoch_to_system_time,
    };
    use omaha_client::time::{ComplexTime, PartialComplexTime};
    use std::time::{Duration, Instant, SystemTime};

    fn anchor_us(a: &str, mid: i128) -> i128 {
        match a {
            "MIN" => -(1i128 << 63),
            "MAX" => (1i128 << 63) - 1,
            "MIDP" => 1_700_000_000_000_000 + mid,
            "MIDN" => -(1_000_000_000_000_000 + mid),
            _ => 0,
        }
    }

    fn time_from_ns(ns: i128) -> Option<SystemTime> {
        let abs = ns.unsigned_abs();
        let d = Duration::new((abs / 1_000_000_000) as u64, (abs % 1_000_000_000) as u32);
        if ns >= 0 {
            SystemTime::UNIX_EPOCH.checked_add(d)
        } else {
            SystemTime::UNIX_EPOCH.checked_sub(d)
        }
    }

    fn exp_micros(v: &Value, mid: i128) -> Option<i64> {
        let a = v[0].as_str().unwrap_or("NONE");
        if a == "NONE" {
            None
        } else {
            Some((anchor_us(a, mid) + v[1].as_i64().unwrap_or(0) as i128) as i64)
        }
    }

    fn partial(p: &Value, base: SystemTime, i0: Instant) -> PartialComplexTime {
        let w = p["w"].get(0).and_then(|x| x.as_u64()).map(|s| base + Duration::from_secs(s));
        let m = p["m"].get(0).and_then(|x| x.as_u64()).map(|s| i0 + Duration::from_secs(s));
        match (w, m) {
            (Some(w), Some(m)) => PartialComplexTime::Complex(ComplexTime { wall: w, mono: m }),
            (Some(w), None) => PartialComplexTime::Wall(w),
            (None, Some(m)) => PartialComplexTime::Monotonic(m),
            _ => panic!("empty partial time in vector"),
        }
    }

    fn same(p: PartialComplexTime, exp: &Value, base: SystemTime, i0: Instant) -> bool {
        let (w, m) = p.destructure();
        let ew = exp["w"].get(0).and_then(|x| x.as_i64()).map(|s| base + Duration::from_secs(s as u64));
        let em = exp["m"].get(0).and_then(|x| x.as_i64()).map(|s| i0 + Duration::from_secs(s as u64));
        w == ew && m == em && p.checked_to_system_time() == ew && p.checked_to_instant() == em
    }

    pub fn run(vec_path: &str, out_path: &str, seed: u64) {
        let mut out = Out::new(out_path);
        let mid = (seed as i128 * 7_919_000_003) % 1_000_000_000_000;
        let base = SystemTime::UNIX_EPOCH + Duration::from_secs(1_700_000_000);
        let i0 = Instant::now() + Duration::from_secs(100);
        for v in vectors(vec_path) {
            out.n += 1;
            let k = v["k"].as_str().unwrap_or("");
            let r = guarded(|| -> Vec<(String, Value)> {
                let mut bad = vec![];
                match k {
                    "m2t2m" => {
                        let m = (anchor_us(v["a"].as_str().unwrap(), mid) + v["o"].as_i64().unwrap() as i128) as i64;
                        let t = micros_from_epoch_to_system_time(m);
                        let back = checked_system_time_to_micros_from_epoch(t);
                        if back != Some(m) {
                            bad.push(("micros -> time -> micros is not the identity".to_string(), json!({"m": m.to_string(), "back": format!("{:?}", back)})));
                        }
                        if PartialComplexTime::from_micros_since_epoch(m).checked_to_micros_since_epoch() != Some(m) {
                            bad.push(("PartialComplexTime micros round trip is not the identity".to_string(), json!(m.to_string())));
                        }
                        let mut st = MemStorage::new();
                        futures::executor::block_on(async {
                            st.set_time("k", t).await.unwrap();
                            st.commit().await.unwrap();
                            let got = st.get_time("k").await;
                            if got != Some(t) {
                                bad.push(("stored time does not reload to the same instant".to_string(), json!(format!("{:?} vs {:?}", got, t))));
                            }
                        });
                    }
                    "t2m" => {
                        let us = anchor_us(v["a"].as_str().unwrap(), mid) + v["o"].as_i64().unwrap() as i128;
                        let ns = us * 1000 + v["sub"].as_i64().unwrap() as i128;
                        let t = match time_from_ns(ns) {
                            Some(t) => t,
                            None => return bad, // not representable on this platform: outside the property
                        };
                        let exp = exp_micros(&v["exp"], mid);
                        let got = checked_system_time_to_micros_from_epoch(t);
                        if got != exp {
                            bad.push(("time -> micros does not truncate toward the epoch / none exactly when it does not fit".to_string(),
                                      json!({"ns": ns.to_string(), "got": format!("{:?}", got), "exp": format!("{:?}", exp)})));
                        }
                        if PartialComplexTime::Wall(t).checked_to_micros_since_epoch() != exp {
                            bad.push(("PartialComplexTime::checked_to_micros_since_epoch differs".to_string(), json!(ns.to_string())));
                        }
                        let texp = exp_micros(&json!([v["trunc"][0], v["trunc"][1]]), mid).map(micros_from_epoch_to_system_time);
                        let c = ComplexTime { wall: t, mono: i0 };
                        let tr = c.truncate_submicrosecond_walltime();
                        if let Some(te) = texp {
                            if tr.wall != te || tr.mono != i0 {
                                bad.push(("truncate_submicrosecond_walltime disagrees with the storage round trip".to_string(),
                                          json!({"ns": ns.to_string(), "got": format!("{:?}", tr.wall), "exp": format!("{:?}", te)})));
                            }
                            if tr.truncate_submicrosecond_walltime() != tr {
                                bad.push(("truncate_submicrosecond_walltime is not idempotent".to_string(), json!(ns.to_string())));
                            }
                        }
                        let mut st = MemStorage::new();
                        futures::executor::block_on(async {
                            let _ = st.set_time("k", t).await;
                            st.commit().await.unwrap();
                            let got = st.get_time("k").await;
                            if got != texp {
                                bad.push(("storing and reloading a time does not give the instant at microsecond precision".to_string(),
                                          json!({"ns": ns.to_string(), "got": format!("{:?}", got), "exp": format!("{:?}", texp)})));
                            }
                        });
                    }
                    "add" | "sub" => {
                        let p = partial(&v["p"], base, i0);
                        let d = Duration::from_secs(v["d"].as_u64().unwrap());
                        let r = if k == "add" { p + d } else { p - d };
                        let mut r2 = p;
                        if k == "add" {
                            r2 += d;
                        } else {
                            r2 -= d;
                        }
                        if !same(r, &v["exp"], base, i0) || r2 != r {
                            bad.push(("add/sub does not act on exactly the components present".to_string(), json!(format!("{:?}", r))));
                        }
                        if let PartialComplexTime::Complex(c) = p {
                            let rc = if k == "add" { c + d } else { c - d };
                            if !same(PartialComplexTime::Complex(rc), &v["exp"], base, i0) {
                                bad.push(("ComplexTime add/sub differs".to_string(), json!(format!("{:?}", rc))));
                            }
                        }
                    }
                    "complete" => {
                        let p = partial(&v["p"], base, i0);
                        let c = match partial(&v["c"], base, i0) {
                            PartialComplexTime::Complex(c) => c,
                            _ => panic!("complete: c must be complete"),
                        };
                        let r = p.complete_with(c);
                        if !same(PartialComplexTime::Complex(r), &v["exp"], base, i0) {
                            bad.push(("complete_with does not keep the components present".to_string(), json!(format!("{:?}", r))));
                        }
                    }
                    _ => {
                        let c = match partial(&v["c"], base, i0) {
                            PartialComplexTime::Complex(c) => c,
                            _ => panic!("after: c must be complete"),
                        };
                        let p = partial(&v["p"], base, i0);
                        let r = c.is_after_or_eq_any(p);
                        if Some(r) != v["exp"].as_bool() {
                            bad.push(("is_after_or_eq_any differs".to_string(), json!(r)));
                        }
                    }
                }
                bad
            });
            match r {
                Ok(bads) => {
                    for (w, g) in bads {
                        out.bad(&w, &v, g);
                    }
                }
                Err(p) => out.bad("panic", &v, json!(p)),
            }
        }
        out.finish();
    }
}
pub use timeconv::run as time;
