//! Function properties: vectors printed by TLC from the TLA+ reference models are run through the real
//! functions; any disagreement is printed as one JSON line {"bad": ..., "vec": ...}.

use serde_json::{json, Value};
use std::io::{BufRead, Write};
use std::panic::{catch_unwind, AssertUnwindSafe};
use std::str::FromStr;

fn vectors(path: &str) -> Vec<Value> {
    let f = std::fs::File::open(path).expect("open vectors");
    std::io::BufReader::new(f)
        .lines()
        .map(|l| l.expect("read"))
        .filter(|l| !l.trim().is_empty())
        .map(|l| serde_json::from_str(&l).expect("vector json"))
        .collect()
}

pub struct Out {
    pub n: usize,
    pub bad: usize,
    w: Box<dyn Write>,
}

impl Out {
    pub fn new(path: &str) -> Out {
        Out {
            n: 0,
            bad: 0,
            w: Box::new(std::io::BufWriter::new(std::fs::File::create(path).expect("create out"))),
        }
    }
    pub fn bad(&mut self, what: &str, vec: &Value, got: Value) {
        self.bad += 1;
        writeln!(self.w, "{}", json!({"bad": what, "vec": vec, "got": got})).unwrap();
    }
    pub fn finish(mut self) {
        writeln!(self.w, "{}", json!({"summary": {"n": self.n, "bad": self.bad}})).unwrap();
        self.w.flush().unwrap();
    }
}

fn guarded<T>(f: impl FnOnce() -> T) -> Result<T, String> {
    catch_unwind(AssertUnwindSafe(f)).map_err(|p| {
        p.downcast_ref::<String>()
            .cloned()
            .or_else(|| p.downcast_ref::<&str>().map(|s| s.to_string()))
            .unwrap_or_else(|| "panic".into())
    })
}

// ------------------------------------------------------------------ C20
pub fn ver(vec_path: &str, out_path: &str) {
    use omaha_client::version::Version;
    let mut out = Out::new(out_path);
    for v in vectors(vec_path) {
        out.n += 1;
        if let Some(s) = v.get("s").and_then(|x| x.as_str()) {
            let verdict = v["v"].as_str().unwrap_or("");
            let r = guarded(|| Version::from_str(s));
            let r = match r {
                Err(p) => {
                    out.bad("panic in from_str", &v, json!(p));
                    continue;
                }
                Ok(r) => r,
            };
            let js = serde_json::to_string(&json!(s)).unwrap();
            let de = guarded(|| serde_json::from_str::<Version>(&js));
            match verdict {
                "ok" => {
                    let p = v["p"].as_str().unwrap_or("");
                    match &r {
                        Ok(ver) => {
                            let printed = ver.to_string();
                            if printed != p {
                                out.bad("print differs from the canonical form", &v, json!(printed));
                            }
                            if format!("{:?}", ver) != p {
                                out.bad("debug print differs", &v, json!(format!("{:?}", ver)));
                            }
                            match Version::from_str(&printed) {
                                Ok(back) if back == *ver => {}
                                _ => out.bad("parse(print(v)) != v", &v, json!(printed)),
                            }
                            match serde_json::to_string(ver) {
                                Ok(j) if j == format!("\"{}\"", p) => {}
                                other => out.bad("JSON serialisation is not the canonical string", &v, json!(format!("{:?}", other))),
                            }
                            // arrays zero-fill
                            let parts: Vec<u32> = p.split('.').map(|x| x.parse::<u32>().unwrap_or(0)).collect();
                            let np = v["np"].as_u64().unwrap_or(4) as usize;
                            let from_arr = match np {
                                1 => Version::from([parts[0]]),
                                2 => Version::from([parts[0], parts[1]]),
                                3 => Version::from([parts[0], parts[1], parts[2]]),
                                _ => Version::from([parts[0], parts[1], parts[2], parts[3]]),
                            };
                            if from_arr != *ver {
                                out.bad("conversion from array differs from parse", &v, json!(from_arr.to_string()));
                            }
                        }
                        Err(e) => out.bad("rejected a valid version string", &v, json!(e.to_string())),
                    }
                    match de {
                        Ok(Ok(d)) if r.as_ref().map(|x| *x == d).unwrap_or(false) => {}
                        other => out.bad("JSON deserialisation differs from parse", &v, json!(format!("{:?}", other.map(|x| x.map(|y| y.to_string()).map_err(|e| e.to_string()))))),
                    }
                }
                "err" => {
                    if let Ok(ver) = &r {
                        out.bad("accepted an invalid version string", &v, json!(ver.to_string()));
                    }
                    if let Ok(Ok(d)) = de {
                        out.bad("JSON deserialisation accepted an invalid version string", &v, json!(d.to_string()));
                    }
                }
                _ => {
                    if let Err(p) = de {
                        out.bad("panic in deserialisation", &v, json!(p));
                    }
                }
            }
        } else {
            let a = Version::from_str(v["a"].as_str().unwrap_or("")).expect("cmp a");
            let b = Version::from_str(v["b"].as_str().unwrap_or("")).expect("cmp b");
            let lt = v["lt"].as_bool().unwrap_or(false);
            let eq = v["eq"].as_bool().unwrap_or(false);
            if (a < b) != lt || (a == b) != eq || (a > b) != (!lt && !eq) || (a.cmp(&b) == std::cmp::Ordering::Less) != lt {
                out.bad("ordering differs from numeric component-wise order", &v, json!({"lt": a < b, "eq": a == b}));
            }
        }
    }
    out.finish();
}

// ------------------------------------------------------------------ C19
mod timeconv {
    use super::*;
    use omaha_client::storage::{MemStorage, Storage, StorageExt};
    use omaha_client::time::system_time_conversion::{
        checked_system_time_to_micros_from_epoch, micros_from_epoch_to_system_time,
    };
    use omaha_client::time::{ComplexTime, PartialComplexTime};
    use std::time::{Duration, Instant, SystemTime};

    fn anchor_us(a: &str, mid: i128) -> i128 {
        match a {
            "MIN" => -(1i128 << 63),
            "MAX" => (1i128 << 63) - 1,
            "MIDP" => 1_700_000_000_000_000 + mid,
            "MIDN" => -(1_000_000_000_000_000 + mid),
            _ => 0,
        }
    }

    fn time_from_ns(ns: i128) -> Option<SystemTime> {
        let abs = ns.unsigned_abs();
        let d = Duration::new((abs / 1_000_000_000) as u64, (abs % 1_000_000_000) as u32);
        if ns >= 0 {
            SystemTime::UNIX_EPOCH.checked_add(d)
        } else {
            SystemTime::UNIX_EPOCH.checked_sub(d)
        }
    }

    fn exp_micros(v: &Value, mid: i128) -> Option<i64> {
        let a = v[0].as_str().unwrap_or("NONE");
        if a == "NONE" {
            None
        } else {
            Some((anchor_us(a, mid) + v[1].as_i64().unwrap_or(0) as i128) as i64)
        }
    }

    fn partial(p: &Value, base: SystemTime, i0: Instant) -> PartialComplexTime {
        let w = p["w"].get(0).and_then(|x| x.as_u64()).map(|s| base + Duration::from_secs(s));
        let m = p["m"].get(0).and_then(|x| x.as_u64()).map(|s| i0 + Duration::from_secs(s));
        match (w, m) {
            (Some(w), Some(m)) => PartialComplexTime::Complex(ComplexTime { wall: w, mono: m }),
            (Some(w), None) => PartialComplexTime::Wall(w),
            (None, Some(m)) => PartialComplexTime::Monotonic(m),
            _ => panic!("empty partial time in vector"),
        }
    }

    fn same(p: PartialComplexTime, exp: &Value, base: SystemTime, i0: Instant) -> bool {
        let (w, m) = p.destructure();
        let ew = exp["w"].get(0).and_then(|x| x.as_i64()).map(|s| base + Duration::from_secs(s as u64));
        let em = exp["m"].get(0).and_then(|x| x.as_i64()).map(|s| i0 + Duration::from_secs(s as u64));
        w == ew && m == em && p.checked_to_system_time() == ew && p.checked_to_instant() == em
    }

    pub fn run(vec_path: &str, out_path: &str, seed: u64) {
        let mut out = Out::new(out_path);
        let mid = (seed as i128 * 7_919_000_003) % 1_000_000_000_000;
        let base = SystemTime::UNIX_EPOCH + Duration::from_secs(1_700_000_000);
        let i0 = Instant::now() + Duration::from_secs(100);
        for v in vectors(vec_path) {
            out.n += 1;
            let k = v["k"].as_str().unwrap_or("");
            let r = guarded(|| -> Vec<(String, Value)> {
                let mut bad = vec![];
                match k {
                    "m2t2m" => {
                        let m = (anchor_us(v["a"].as_str().unwrap(), mid) + v["o"].as_i64().unwrap() as i128) as i64;
                        let t = micros_from_epoch_to_system_time(m);
                        let back = checked_system_time_to_micros_from_epoch(t);
                        if back != Some(m) {
                            bad.push(("micros -> time -> micros is not the identity".to_string(), json!({"m": m.to_string(), "back": format!("{:?}", back)})));
                        }
                        if PartialComplexTime::from_micros_since_epoch(m).checked_to_micros_since_epoch() != Some(m) {
                            bad.push(("PartialComplexTime micros round trip is not the identity".to_string(), json!(m.to_string())));
                        }
                        let mut st = MemStorage::new();
                        futures::executor::block_on(async {
                            st.set_time("k", t).await.unwrap();
                            st.commit().await.unwrap();
                            let got = st.get_time("k").await;
                            if got != Some(t) {
                                bad.push(("stored time does not reload to the same instant".to_string(), json!(format!("{:?} vs {:?}", got, t))));
                            }
                        });
                    }
                    "t2m" => {
                        let us = anchor_us(v["a"].as_str().unwrap(), mid) + v["o"].as_i64().unwrap() as i128;
                        let ns = us * 1000 + v["sub"].as_i64().unwrap() as i128;
                        let t = match time_from_ns(ns) {
                            Some(t) => t,
                            None => return bad, // not representable on this platform: outside the property
                        };
                        let exp = exp_micros(&v["exp"], mid);
                        let got = checked_system_time_to_micros_from_epoch(t);
                        if got != exp {
                            bad.push(("time -> micros does not truncate toward the epoch / none exactly when it does not fit".to_string(),
                                      json!({"ns": ns.to_string(), "got": format!("{:?}", got), "exp": format!("{:?}", exp)})));
                        }
                        if PartialComplexTime::Wall(t).checked_to_micros_since_epoch() != exp {
                            bad.push(("PartialComplexTime::checked_to_micros_since_epoch differs".to_string(), json!(ns.to_string())));
                        }
                        let texp = exp_micros(&json!([v["trunc"][0], v["trunc"][1]]), mid).map(micros_from_epoch_to_system_time);
                        let c = ComplexTime { wall: t, mono: i0 };
                        let tr = c.truncate_submicrosecond_walltime();
                        if let Some(te) = texp {
                            if tr.wall != te || tr.mono != i0 {
                                bad.push(("truncate_submicrosecond_walltime disagrees with the storage round trip".to_string(),
                                          json!({"ns": ns.to_string(), "got": format!("{:?}", tr.wall), "exp": format!("{:?}", te)})));
                            }
                            if tr.truncate_submicrosecond_walltime() != tr {
                                bad.push(("truncate_submicrosecond_walltime is not idempotent".to_string(), json!(ns.to_string())));
                            }
                        }
                        let mut st = MemStorage::new();
                        futures::executor::block_on(async {
                            let _ = st.set_time("k", t).await;
                            st.commit().await.unwrap();
                            let got = st.get_time("k").await;
                            if got != texp {
                                bad.push(("storing and reloading a time does not give the instant at microsecond precision".to_string(),
                                          json!({"ns": ns.to_string(), "got": format!("{:?}", got), "exp": format!("{:?}", texp)})));
                            }
                        });
                    }
                    "add" | "sub" => {
                        let p = partial(&v["p"], base, i0);
                        let d = Duration::from_secs(v["d"].as_u64().unwrap());
                        let r = if k == "add" { p + d } else { p - d };
                        let mut r2 = p;
                        if k == "add" {
                            r2 += d;
                        } else {
                            r2 -= d;
                        }
                        if !same(r, &v["exp"], base, i0) || r2 != r {
                            bad.push(("add/sub does not act on exactly the components present".to_string(), json!(format!("{:?}", r))));
                        }
                        if let PartialComplexTime::Complex(c) = p {
                            let rc = if k == "add" { c + d } else { c - d };
                            if !same(PartialComplexTime::Complex(rc), &v["exp"], base, i0) {
                                bad.push(("ComplexTime add/sub differs".to_string(), json!(format!("{:?}", rc))));
                            }
                        }
                    }
                    "complete" => {
                        let p = partial(&v["p"], base, i0);
                        let c = match partial(&v["c"], base, i0) {
                            PartialComplexTime::Complex(c) => c,
                            _ => panic!("complete: c must be complete"),
                        };
                        let r = p.complete_with(c);
                        if !same(PartialComplexTime::Complex(r), &v["exp"], base, i0) {
                            bad.push(("complete_with does not keep the components present".to_string(), json!(format!("{:?}", r))));
                        }
                    }
                    _ => {
                        let c = match partial(&v["c"], base, i0) {
                            PartialComplexTime::Complex(c) => c,
                            _ => panic!("after: c must be complete"),
                        };
                        let p = partial(&v["p"], base, i0);
                        let r = c.is_after_or_eq_any(p);
                        if Some(r) != v["exp"].as_bool() {
                            bad.push(("is_after_or_eq_any differs".to_string(), json!(r)));
                        }
                    }
                }
                bad
            });
            match r {
                Ok(bads) => {
                    for (w, g) in bads {
                        out.bad(&w, &v, g);
                    }
                }
                Err(p) => out.bad("panic", &v, json!(p)),
            }
        }
        out.finish();
    }
}
pub use timeconv::run as time;

// ------------------------------------------------------------------ C13 (generator)
mod gen {
    use super::*;
    use futures::prelude::*;
    use futures::task::{Context, Poll};
    use omaha_client::async_generator::{generate, GeneratorState};
    use std::cell::{Cell, RefCell};
    use std::pin::Pin;
    use std::rc::Rc;
    use std::sync::atomic::{AtomicUsize, Ordering};
    use std::sync::Arc;
    use std::task::{Wake, Waker};

    struct Count(AtomicUsize);
    impl Wake for Count {
        fn wake(self: Arc<Self>) {
            self.0.fetch_add(1, Ordering::SeqCst);
        }
        fn wake_by_ref(self: &Arc<Self>) {
            self.0.fetch_add(1, Ordering::SeqCst);
        }
    }

    #[derive(Default)]
    struct Gates {
        open: [bool; 3],
        waker: [Option<Waker>; 3],
    }

    struct GateFut(Rc<RefCell<Gates>>, usize);
    impl Future for GateFut {
        type Output = ();
        fn poll(self: Pin<&mut Self>, cx: &mut Context<'_>) -> Poll<()> {
            let mut g = self.0.borrow_mut();
            if g.open[self.1] {
                Poll::Ready(())
            } else {
                g.waker[self.1] = Some(cx.waker().clone());
                Poll::Pending
            }
        }
    }

    fn yield_once() -> impl Future<Output = ()> {
        let mut done = false;
        future::poll_fn(move |cx: &mut Context<'_>| {
            if !done {
                done = true;
                cx.waker().wake_by_ref();
                Poll::Pending
            } else {
                Poll::Ready(())
            }
        })
    }

    type Prog = Vec<(String, usize)>;

    fn prog_of(v: &Value) -> Prog {
        v["prog"]
            .as_array()
            .cloned()
            .unwrap_or_default()
            .iter()
            .map(|o| (o["op"].as_str().unwrap_or("R").to_string(), o["g"].as_u64().unwrap_or(0) as usize))
            .collect()
    }

    fn make(
        prog: Prog,
        gates: Rc<RefCell<Gates>>,
        pos: Rc<Cell<usize>>,
    ) -> omaha_client::async_generator::Generator<impl Future<Output = &'static str>, u32, &'static str> {
        generate(move |co| async move {
            let mut co = Some(co);
            let mut ny = 0u32;
            let n = prog.len();
            for (i, (op, g)) in prog.into_iter().enumerate() {
                pos.set(i + 1);
                match op.as_str() {
                    "Y" => {
                        ny += 1;
                        co.as_mut().expect("yield after drop").yield_(ny).await;
                    }
                    "SW" => yield_once().await,
                    "W" => GateFut(gates.clone(), g).await,
                    "DH" => {
                        co.take();
                    }
                    _ => {}
                }
            }
            pos.set(n + 1);
            "done"
        })
    }

    pub fn run(vec_path: &str, out_path: &str) {
        let mut out = Out::new(out_path);
        for v in vectors(vec_path) {
            out.n += 1;
            let r = guarded(|| -> Vec<(String, Value)> {
                let mut bad = vec![];
                let hist = v["hist"].as_array().cloned().unwrap_or_default();
                // ---- raw generator: every poll result, wake-up and task position against the model
                {
                    let gates = Rc::new(RefCell::new(Gates::default()));
                    let pos = Rc::new(Cell::new(0usize));
                    let cnt = Arc::new(Count(AtomicUsize::new(0)));
                    let waker = Waker::from(cnt.clone());
                    let mut s = Box::pin(make(prog_of(&v), gates.clone(), pos.clone()));
                    let mut woken = false;
                    for (i, h) in hist.iter().enumerate() {
                        let before = cnt.0.load(Ordering::SeqCst);
                        if h["a"] == "poll" {
                            woken = false;
                            let mut cx = Context::from_waker(&waker);
                            let (res, val) = match s.as_mut().poll_next(&mut cx) {
                                Poll::Pending => ("pending", 0),
                                Poll::Ready(None) => ("none", 0),
                                Poll::Ready(Some(GeneratorState::Yielded(x))) => ("item", x),
                                Poll::Ready(Some(GeneratorState::Complete(_))) => ("complete", 0),
                            };
                            if h["res"] != res || h["v"].as_u64() != Some(val as u64) {
                                bad.push((format!("poll #{} returned {} {} (model: {} {})", i + 1, res, val, h["res"], h["v"]), json!(i)));
                                break;
                            }
                            let ip = if pos.get() == 0 { 1 } else { pos.get() };
                            if h["ip"].as_u64() != Some(ip as u64) {
                                bad.push((format!("after poll #{} the task is at op {} (model: {}): the producer ran ahead of / behind its consumer", i + 1, ip, h["ip"]), json!(i)));
                                break;
                            }
                        } else {
                            let g = h["g"].as_u64().unwrap_or(0) as usize;
                            let w = {
                                let mut gs = gates.borrow_mut();
                                gs.open[g] = true;
                                gs.waker[g].take()
                            };
                            if let Some(w) = w {
                                w.wake();
                            }
                        }
                        if cnt.0.load(Ordering::SeqCst) != before {
                            woken = true;
                        }
                        if h["wokenAfter"] == true && !woken {
                            bad.push((format!("lost wake-up at step #{}: the model's stream is woken, the implementation's is not", i + 1), json!(i)));
                            break;
                        }
                    }
                }
                // ---- into_yielded: items then end of stream (the completion is swallowed)
                {
                    let gates = Rc::new(RefCell::new(Gates::default()));
                    let pos = Rc::new(Cell::new(0usize));
                    let waker = futures::task::noop_waker();
                    let prog = prog_of(&v);
                    let unit_prog = prog.clone();
                    let g2 = gates.clone();
                    let p2 = pos.clone();
                    let gen = generate(move |co| async move {
                        let mut co = Some(co);
                        let mut ny = 0u32;
                        for (i, (op, g)) in unit_prog.into_iter().enumerate() {
                            p2.set(i + 1);
                            match op.as_str() {
                                "Y" => {
                                    ny += 1;
                                    co.as_mut().expect("yield after drop").yield_(ny).await;
                                }
                                "SW" => yield_once().await,
                                "W" => GateFut(g2.clone(), g).await,
                                "DH" => {
                                    co.take();
                                }
                                _ => {}
                            }
                        }
                    });
                    let mut s = Box::pin(gen.into_yielded());
                    for (i, h) in hist.iter().enumerate() {
                        if h["a"] == "poll" {
                            let mut cx = Context::from_waker(&waker);
                            let res = match s.as_mut().poll_next(&mut cx) {
                                Poll::Pending => "pending".to_string(),
                                Poll::Ready(None) => "none".to_string(),
                                Poll::Ready(Some(x)) => format!("item{}", x),
                            };
                            let exp = match h["res"].as_str().unwrap_or("") {
                                "item" => format!("item{}", h["v"]),
                                "complete" => "none".to_string(),
                                x => x.to_string(),
                            };
                            if res != exp {
                                bad.push((format!("into_yielded poll #{} returned {} (model: {})", i + 1, res, exp), json!(i)));
                                break;
                            }
                        } else {
                            let g = h["g"].as_u64().unwrap_or(0) as usize;
                            let w = {
                                let mut gs = gates.borrow_mut();
                                gs.open[g] = true;
                                gs.waker[g].take()
                            };
                            if let Some(w) = w {
                                w.wake();
                            }
                        }
                    }
                    let _ = prog;
                }
                // ---- into_complete: polled only when woken; must complete once every gate has been fired
                {
                    let gates = Rc::new(RefCell::new(Gates::default()));
                    let pos = Rc::new(Cell::new(0usize));
                    let cnt = Arc::new(Count(AtomicUsize::new(0)));
                    let waker = Waker::from(cnt.clone());
                    let prog = prog_of(&v);
                    let needs: Vec<usize> = prog.iter().filter(|(o, _)| o == "W").map(|(_, g)| *g).collect();
                    let mut f = Box::pin(make(prog, gates.clone(), pos.clone()).into_complete());
                    let mut done = None;
                    let mut seen = 0;
                    let mut first = true;
                    let mut fires: Vec<usize> = hist.iter().filter(|h| h["a"] == "fire").map(|h| h["g"].as_u64().unwrap() as usize).collect();
                    for g in needs {
                        if !fires.contains(&g) {
                            fires.push(g);
                        }
                    }
                    let mut fi = 0;
                    for _ in 0..200 {
                        let c = cnt.0.load(Ordering::SeqCst);
                        if first || c != seen {
                            first = false;
                            seen = c;
                            let mut cx = Context::from_waker(&waker);
                            if let Poll::Ready(r) = f.as_mut().poll(&mut cx) {
                                done = Some(r);
                                break;
                            }
                            continue;
                        }
                        if fi < fires.len() {
                            let g = fires[fi];
                            fi += 1;
                            let w = {
                                let mut gs = gates.borrow_mut();
                                gs.open[g] = true;
                                gs.waker[g].take()
                            };
                            if let Some(w) = w {
                                w.wake();
                            }
                        } else {
                            break;
                        }
                    }
                    if done != Some("done") {
                        bad.push(("into_complete did not complete although every awaited gate was fired (lost wake-up or deadlock)".to_string(), json!(pos.get())));
                    }
                }
                bad
            });
            match r {
                Ok(bads) => {
                    for (w, g) in bads {
                        out.bad(&w, &v, g);
                    }
                }
                Err(p) => out.bad("panic", &v, json!(p)),
            }
        }
        out.finish();
    }
}
pub use gen::run as generator;
